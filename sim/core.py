# Harness core: seeds, plans, running cppcheck-sim, parsing findings and traces.
# Standard library only; run with /usr/bin/python3.
import hashlib
import json
import os
import re
import shutil
import signal
import subprocess
import sys
import time
import xml.etree.ElementTree as ET

VERIF = os.path.dirname(os.path.dirname(os.path.abspath(__file__)))
BUILD = os.environ.get("VERIF_BUILD") or os.path.join(VERIF, "build")   # VERIF_BUILD/VERIF_REPO: experiments against a scratch copy of the repository
MASK = (1 << 64) - 1


# --------------------------------------------------------------------------- PRNG
class Rng:
    """SplitMix64. One integer decides everything; never seeded from time or hash()."""

    def __init__(self, seed):
        self.s = seed & MASK

    def next(self):
        self.s = (self.s + 0x9E3779B97F4A7C15) & MASK
        z = self.s
        z = ((z ^ (z >> 30)) * 0xBF58476D1CE4E5B9) & MASK
        z = ((z ^ (z >> 27)) * 0x94D049BB133111EB) & MASK
        return z ^ (z >> 31)

    def below(self, n):
        return self.next() % n if n > 0 else 0

    def chance(self, p):
        return (self.next() % 1000000) < int(p * 1000000)

    def choice(self, seq):
        return seq[self.below(len(seq))]

    def randint(self, a, b):
        return a + self.below(b - a + 1)

    def shuffle(self, lst):
        for i in range(len(lst) - 1, 0, -1):
            j = self.below(i + 1)
            lst[i], lst[j] = lst[j], lst[i]
        return lst

    def sample(self, seq, k):
        l = list(seq)
        self.shuffle(l)
        return l[:k]

    def fork(self, *parts):
        return Rng(mix(self.next(), *parts))


def mix(seed, *parts):
    h = hashlib.sha256(repr((seed,) + tuple(parts)).encode()).digest()
    return int.from_bytes(h[:8], "big")


# --------------------------------------------------------------------------- build
def exe(variant):
    return os.path.join(BUILD, variant, "cppcheck-sim")


def build(variants, quiet=True):
    """Incremental rebuild of cppcheck-sim from /repo's current working tree."""
    for v in variants:
        cmd = ["make", "-s", "-C", os.path.join(VERIF, "sim"), "-j16", "VARIANT=" + v, "OUT=" + os.path.join(BUILD, v)]
        if os.environ.get("VERIF_REPO"):
            cmd.append("REPO=" + os.environ["VERIF_REPO"])
        t0 = time.time()
        p = subprocess.run(cmd, stdout=subprocess.PIPE, stderr=subprocess.STDOUT, text=True)
        if p.returncode != 0:
            sys.stdout.write(p.stdout[-4000:])
            print("HARNESS-ERROR: build of variant %s failed" % v)
            sys.exit(2)
        if not quiet:
            print("built %s in %.1fs" % (v, time.time() - t0))


# --------------------------------------------------------------------------- scratch
def scratch_root():
    base = os.environ.get("VERIF_SCRATCH")
    if not base:
        base = os.path.join(os.environ.get("TMPDIR", "/tmp"), "verif-scratch.%d" % os.getpid())
    return base


def write_tree(root, tree):
    for rel, content in tree.items():
        p = os.path.join(root, rel)
        os.makedirs(os.path.dirname(p), exist_ok=True)
        if content is None:
            if os.path.exists(p):
                os.unlink(p)
            continue
        with open(p, "w", encoding="utf-8", newline="") as f:
            f.write(content)


def rmtree(p):
    shutil.rmtree(p, ignore_errors=True)


# --------------------------------------------------------------------------- findings
WHOLE_PROGRAM_IDS = {
    "unusedFunction", "ctunullpointer", "ctuuninitvar", "ctuArrayIndex", "ctuPointerArith",
    "ctuOneDefinitionRuleViolation", "staticFunction",
}
META_IDS = {"checkersReport"}


class Finding(tuple):
    """(id, severity, inconclusive, cwe, msg, verbose, locations, symbols, file0)"""
    __slots__ = ()

    @property
    def id(self): return self[0]
    @property
    def severity(self): return self[1]
    @property
    def msg(self): return self[4]
    @property
    def locs(self): return self[6]
    @property
    def file0(self): return self[8]

    def primary_file(self):
        # cppcheck's XML lists the call stack backwards: the first <location> is the primary one
        return self[6][0][0] if self[6] else ""

    def nofile0(self):
        return Finding(self[:8] + ("",))

    def short(self):
        loc = "%s:%s:%s" % self[6][0][:3] if self[6] else "-"
        return "%s:%s:%s:%s" % (loc, self[1], self[0], self[4][:90])


def parse_xml_findings(text):
    """Parse cppcheck --xml output (possibly truncated). Returns (findings, wellformed)."""
    start = text.find("<?xml")
    if start < 0:
        return [], False
    body = text[start:]
    end = body.rfind("</results>")
    well = end >= 0
    if well:
        body = body[:end + len("</results>")]
    try:
        root = ET.fromstring(body)
    except ET.ParseError:
        return [], False
    out = []
    errs = root.find("errors")
    if errs is None:
        return [], well
    for e in errs.findall("error"):
        locs = tuple((l.get("file", ""), l.get("line", ""), l.get("column", ""), l.get("info", "")) for l in e.findall("location"))
        syms = tuple(s.text or "" for s in e.findall("symbol"))
        out.append(Finding((e.get("id", ""), e.get("severity", ""), e.get("inconclusive", ""), e.get("cwe", ""),
                            e.get("msg", ""), e.get("verbose", ""), locs, syms, e.get("file0", ""))))
    return out, well


TEXT_SEP = "|~|"
TEXT_TEMPLATE = "--template=" + TEXT_SEP.join(["{file}", "{line}", "{column}", "{severity}", "{id}", "{inconclusive:inconclusive}", "{cwe}", "{message}"])


def parse_template_findings(text):
    """Findings from the text channel (TEXT_TEMPLATE): messages arrive as cppcheck prints them, unsanitised."""
    out = []
    for l in text.split("\n"):
        p = l.split(TEXT_SEP)
        if len(p) < 8:
            continue
        file_, line, col, sev, fid, inc, cwe = p[:7]
        msg = TEXT_SEP.join(p[7:])
        locs = ((file_, line, col, ""),) if file_ != "nofile" else ()
        out.append(Finding((fid, sev, "true" if inc else "", cwe if cwe != "0" else "", msg, "", locs, (), "")))
    return out


def multiset(findings, keep=None, drop_file0=True):
    d = {}
    for f in findings:
        if keep is not None and not keep(f):
            continue
        k = f.nofile0() if drop_file0 else f
        d[k] = d.get(k, 0) + 1
    return d


def diff_multisets(a, b):
    """Returns (only_in_a, only_in_b) as sorted lists of (finding, count)."""
    oa, ob = [], []
    for k in set(a) | set(b):
        ca, cb = a.get(k, 0), b.get(k, 0)
        if ca > cb:
            oa.append((k, ca - cb))
        elif cb > ca:
            ob.append((k, cb - ca))
    key = lambda t: repr(t[0])
    return sorted(oa, key=key), sorted(ob, key=key)


def fmt_diff(oa, ob, na="subject", nb="reference", limit=6):
    lines = []
    for k, c in oa[:limit]:
        lines.append("only in %s x%d: %s" % (na, c, k.short()))
    for k, c in ob[:limit]:
        lines.append("only in %s x%d: %s" % (nb, c, k.short()))
    return lines


# --------------------------------------------------------------------------- plan / run
PLAN_KEYS = ("seed", "sched", "pct_depth", "pct_steps", "chunk", "crash_op", "crash_prefix", "crash_sig", "sel_timeout",
             "wait_lag", "loadavg", "readdir_shuffle", "dt_unknown", "clock", "clock_step", "max_steps", "trace_sched")


def plan_text(plan, trace_path, roots):
    lines = ["seed %d" % plan.get("seed", 1), "trace %s" % trace_path]
    for r in roots:
        lines.append("root %s" % r)
    for k in PLAN_KEYS[1:]:
        if k in plan and plan[k] is not None:
            lines.append("%s %s" % (k, plan[k]))
    for d in plan.get("die", []):
        lines.append("die %d %d %d %s %d" % (d["worker"], d["msg"], d["off"], d["how"], d["arg"]))
    return "\n".join(lines) + "\n"


class RunResult:
    __slots__ = ("args", "rc", "sig", "stdout", "stderr", "findings", "xml_ok", "trace", "trace_hash", "timed_out",
                 "wall", "variant")

    def summary(self):
        return {"args": self.args, "rc": self.rc, "sig": self.sig, "n_findings": len(self.findings),
                "trace_hash": self.trace_hash, "xml_ok": self.xml_ok}

    # ---- trace accessors
    def lines(self, kind):
        return [l for l in self.trace if l.startswith(kind + " ")]

    def steps(self):
        for l in reversed(self.trace):
            if l.startswith("Z "):
                for tok in l.split():
                    if tok.startswith("steps="):
                        return int(tok[6:])
        return len([l for l in self.trace if l[:2] in ("S ", "P ")])

    def ops(self):
        return [l.split(" ", 6) for l in self.trace if l.startswith("O ")]

    def sanitizer_report(self):
        for marker in ("ThreadSanitizer:", "AddressSanitizer:", "runtime error:", "LeakSanitizer:"):
            if marker in self.stderr:
                return marker
        return None


_PIDLIKE = re.compile(r"\d{2,}")
_PIDNAME = re.compile(r"\d{2,}(?=\.(?:dump|ctu-info|txt))")


def trace_hash(lines):
    """Interleaving identity. File names that embed the process id (temporary dump / file-list names) are normalised."""
    h = hashlib.sha256()
    for l in lines:
        if l.startswith("V ") and " alloc " in l:
            continue    # allocator statistics: a reach probe, not a decision
        if l.startswith("O "):
            l = _PIDLIKE.sub("N", l)
        elif ".dump" in l or ".ctu-info" in l or ".txt" in l:
            l = _PIDNAME.sub("PID", l)
        h.update(l.encode("utf-8", "replace"))
        h.update(b"\n")
    return h.hexdigest()[:16]


BASE_ENV = {"PATH": "/usr/bin:/bin", "LANG": "C", "LC_ALL": "C", "HOME": "/nonexistent"}


def strip_prefix(findings, prefix):
    """With --project cppcheck reports absolute paths: make them relative to the scenario's tree again."""
    pre = prefix.rstrip("/") + "/"
    cut = lambda p: p[len(pre):] if p.startswith(pre) else p
    return [Finding(f[:6] + (tuple((cut(l[0]),) + tuple(l[1:]) for l in f[6]), f[7], cut(f[8]))) for f in findings]


def run_sim(variant, cwd, args, plan=None, roots=(), workdir=None, tag="run", env_extra=None, timeout=120, strip=None):
    """One simulated run of the real CLI. plan=None -> pass-through (no simulator)."""
    env = dict(BASE_ENV)
    if env_extra:
        env.update(env_extra)
    trace_path = None
    if plan is not None:
        wd = workdir or cwd
        plan_path = os.path.join(wd, tag + ".plan")
        trace_path = os.path.join(wd, tag + ".trace")
        if os.path.exists(trace_path):
            os.unlink(trace_path)
        with open(plan_path, "w") as f:
            f.write(plan_text(plan, trace_path, [os.path.abspath(os.path.join(cwd, r)) for r in roots]))
        env["VERIF_SIM_PLAN"] = plan_path
        if plan.get("alloc"):
            env["VERIF_SIM_ALLOC"] = str(plan["alloc"])
    if variant == "tsan":
        env.setdefault("TSAN_OPTIONS", "exitcode=66 halt_on_error=0 report_signal_unsafe=0 history_size=4")
    if variant == "asan":
        env.setdefault("ASAN_OPTIONS", "exitcode=77:detect_leaks=0:abort_on_error=0")
    t0 = time.time()
    r = RunResult()
    r.args = list(args)
    r.variant = variant
    r.timed_out = False
    try:
        p = subprocess.run([exe(variant)] + list(args), cwd=cwd, env=env, stdout=subprocess.PIPE, stderr=subprocess.PIPE,
                           timeout=timeout, start_new_session=True)
        rc, out, err = p.returncode, p.stdout, p.stderr
    except subprocess.TimeoutExpired as e:
        r.timed_out = True
        rc, out, err = -9, e.stdout or b"", e.stderr or b""
        subprocess.run(["pkill", "-9", "-f", os.path.abspath(cwd)], stdout=subprocess.DEVNULL, stderr=subprocess.DEVNULL)
    r.wall = time.time() - t0
    r.sig = -rc if rc < 0 else 0
    r.rc = rc
    r.stdout = out.decode("utf-8", "replace")
    r.stderr = err.decode("utf-8", "replace")
    if "--xml" in args:
        r.findings, r.xml_ok = parse_xml_findings(r.stderr)
    elif TEXT_TEMPLATE in args:
        r.findings, r.xml_ok = parse_template_findings(r.stderr), (rc >= 0)
    else:
        r.findings, r.xml_ok = [], False
    if strip:
        r.findings = strip_prefix(r.findings, strip)
    r.trace = []
    if trace_path and os.path.exists(trace_path):
        with open(trace_path, encoding="utf-8", errors="replace") as f:
            r.trace = f.read().split("\n")
        if r.trace and r.trace[-1] == "":
            r.trace.pop()
    r.trace_hash = trace_hash(r.trace) if r.trace else ""
    keep = os.environ.get("VERIF_KEEP_TRACES")     # debugging aid: keep every trace (named by its hash) with the command line
    if keep and r.trace:
        os.makedirs(keep, exist_ok=True)
        with open(os.path.join(keep, "%s-%s-%d.trace" % (tag, r.trace_hash, os.getpid())), "w") as f:
            f.write("# " + " ".join(args) + "\n# cwd " + cwd + "\n" + "\n".join(r.trace) + "\n")
    return r


def harness_error(msg):
    print("HARNESS-ERROR: " + msg)
    sys.stdout.flush()
    sys.exit(2)
