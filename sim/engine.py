# Batch driver shared by all checks: seeded scenario stream -> simulated runs -> oracles ->
# violation gate (re-run, minimise, fresh-process replay) -> known-findings filter -> evidence.
import json
import multiprocessing as mp
import os
import subprocess
import sys
import time
import traceback

from . import core
from .core import mix, VERIF

KNOWN_PATH = os.path.join(VERIF, "known_findings.json")
_OUT = os.environ.get("VERIF_OUT_DIR") or VERIF     # VERIF_OUT_DIR: experiments must not overwrite the committed evidence
REPLAY_DIR = os.path.join(_OUT, "replays")
EVID_DIR = os.path.join(_OUT, "evidence")


class Outcome:
    """Result of executing one scenario."""

    def __init__(self):
        self.violations = []   # dicts: {cls, sig, detail:[lines]}
        self.runs = 0          # simulated runs executed
        self.steps = 0         # scheduler steps covered
        self.sim_seconds = 0   # simulated seconds covered
        self.hashes = []       # trace hashes of simulated runs (interleaving identities)
        self.states = []       # property-specific state signatures (distinct_nontrivial measure)
        self.fired = {}        # fault / perturbation kind -> count actually fired
        self.probes = {}       # reach probes -> count
        self.nontrivial = False
        self.sample = None
        self.error = None      # harness problem (not a violation)
        self.run_hashes = []   # ordered trace hashes (for the determinism gate)

    def fire(self, k, n=1):
        self.fired[k] = self.fired.get(k, 0) + n

    def probe(self, k, n=1):
        self.probes[k] = self.probes.get(k, 0) + n

    def violate(self, cls, sig, detail, ids=None):
        # ids: what exactly disagrees (e.g. the finding ids); the shrinker keeps (cls, ids) fixed so that it
        # cannot slide from one defect to another
        self.violations.append({"cls": cls, "sig": sig, "detail": detail if isinstance(detail, list) else [detail],
                                "ids": ids or ""})

    def account(self, r):
        """Book-keeping for one simulated run result."""
        self.runs += 1
        if r.rc == 99 and not r.sig:
            # the simulator met something it does not model (SIM-UNSUPPORTED ...) or failed internally: a problem of the
            # machinery (exit 2), never a verdict about the property
            self.error = "simulator gave up (rc=99): %s" % "; ".join([l for l in r.trace if l.startswith("E ")] + [l for l in r.stderr.split("\n") if l.startswith("VSIM:")])
        if r.trace:
            self.steps += r.steps()
            self.hashes.append(r.trace_hash)
            self.run_hashes.append(r.trace_hash)
            for l in r.trace:
                c = l[:2]
                if c == "X ":
                    self.fire("crash" if " crash " in l else "worker_die")
                elif c == "P ":
                    if "select timeout" in l:
                        self.fire("select_timeout"); self.sim_seconds += 1
                    elif "waitpid lag" in l:
                        self.fire("waitpid_lag")
                    elif "loadavg high" in l:
                        self.fire("loadavg_high")
                    elif " forced " in l:
                        self.probe("forced_step")
                elif c == "V ":
                    if "readdir" in l:
                        self.fire("readdir_shuffle")
                        if "dtunknown=1" in l:
                            self.fire("dt_unknown")
        else:
            self.run_hashes.append("")

    def to_json(self):
        return self.__dict__


def run_scenario(prop, scn, wd):
    """prop.execute, but a scenario whose runs see absolute paths (compile-database mode: cppcheck then reports and transfers
    absolute file names, whose length decides message sizes and chunk boundaries) always executes at the same absolute path,
    derived from its content - whichever process runs it: batch worker, determinism gate, shrinker or fresh-process replay."""
    if not scn.get("project"):
        return prop.execute(scn, wd)
    import fcntl, hashlib
    h = hashlib.sha256(json.dumps(scn, sort_keys=True).encode()).hexdigest()[:16]
    base = os.path.join(os.environ.get("TMPDIR", "/tmp"), "verif-fixed")
    fwd = os.path.join(base, prop.ID + "-" + h)
    lock = None
    for _attempt in range(50):     # another batch may remove the (empty) base directory at any moment
        try:
            os.makedirs(base, exist_ok=True)
            lock = open(fwd + ".lock", "w")
            break
        except OSError:
            time.sleep(0.01)
    with lock:
        fcntl.flock(lock, fcntl.LOCK_EX)
        core.rmtree(fwd)
        os.makedirs(fwd)
        try:
            return prop.execute(scn, fwd)
        finally:
            core.rmtree(fwd)
            for pth, rm in ((fwd + ".lock", os.unlink), (base, os.rmdir)):
                try:
                    rm(pth)
                except OSError:
                    pass


def _worker(job):
    prop, seed, idx, tier, scratch = job
    wd = os.path.join(scratch, "s%06d" % idx)
    try:
        sseed = mix(seed, prop.ID, idx)
        scn = prop.generate(sseed, tier, idx)
        os.makedirs(wd, exist_ok=True)
        out = run_scenario(prop, scn, wd)
        res = out.to_json()
        res["idx"] = idx
        if out.violations or out.error:
            res["scn"] = scn
        if out.sample is None and idx < 3:
            res["sample"] = prop.describe(scn)
        return res
    except Exception:
        return {"idx": idx, "error": "exception in harness worker:\n" + traceback.format_exc(), "violations": []}
    finally:
        core.rmtree(wd)


def execute_fresh(prop, scn, scratch, tag):
    wd = os.path.join(scratch, tag)
    core.rmtree(wd)
    os.makedirs(wd, exist_ok=True)
    try:
        return run_scenario(prop, scn, wd)
    finally:
        core.rmtree(wd)


def _cand_worker(job):
    prop, cand, scratch, tag = job
    try:
        out = execute_fresh(prop, cand, scratch, tag)
        return [(v["cls"], v.get("ids", "")) for v in out.violations]
    except Exception:
        return []


def shrink(prop, scn, cls, scratch, budget_runs=240, budget_s=150, pool=None, ids=""):
    """Greedy delta debugging over the property's candidate stream; keeps the same violation class."""
    t0 = time.time()
    tried = 0
    cur = scn
    improved = True
    while improved and tried < budget_runs and time.time() - t0 < budget_s:
        improved = False
        cands = []
        for c in prop.candidates(cur):
            cands.append(c)
            if len(cands) >= 48:
                break
        if not cands:
            break
        # evaluate a window of candidates in parallel, accept the first (in order) that still fails
        W = 12
        for base in range(0, len(cands), W):
            win = cands[base:base + W]
            jobs = [(prop, c, scratch, "shr%d_%d" % (tried + i, os.getpid())) for i, c in enumerate(win)]
            if pool is not None:
                res = pool.map(_cand_worker, jobs)
            else:
                res = [_cand_worker(j) for j in jobs]
            tried += len(win)
            hit = None
            for c, r in zip(win, res):
                if any(rc == cls and ri == ids for rc, ri in r):
                    hit = c
                    break
            if hit is not None:
                cur = hit
                improved = True
                break
            if tried >= budget_runs or time.time() - t0 > budget_s:
                break
    return cur, tried


def load_known():
    if not os.path.exists(KNOWN_PATH):
        return []
    with open(KNOWN_PATH) as f:
        return json.load(f).get("findings", [])


def replay_file(prop, path, scratch):
    with open(path) as f:
        rep = json.load(f)
    out = execute_fresh(prop, rep["scenario"], scratch, "replay%d" % os.getpid())
    got = [(v["cls"], v["sig"]) for v in out.violations]
    return rep, out, got


def main(prop, argv=None):
    argv = argv if argv is not None else sys.argv[1:]
    seed = int(os.environ.get("VERIF_SEED", "1") or "1")
    tier = os.environ.get("VERIF_TIER", "quick")
    replay = None
    i = 0
    while i < len(argv):
        a = argv[i]
        if a in ("quick", "thorough"):
            tier = a
        elif a == "--replay":
            replay = argv[i + 1]; i += 1
        elif a == "--n":
            os.environ["VERIF_N"] = argv[i + 1]; i += 1
        i += 1
    t0 = time.time()
    core.build(prop.VARIANTS)
    scratch = os.path.join(core.scratch_root(), prop.ID)
    core.rmtree(scratch)
    os.makedirs(scratch, exist_ok=True)
    try:
        if replay:
            rep, out, got = replay_file(prop, replay, scratch)
            want = (rep["violation"]["cls"], rep["violation"]["sig"])
            print("replay %s: expected %s" % (replay, want))
            for v in out.violations:
                print("  got %s %s" % (v["cls"], v["sig"]))
                for l in v["detail"][:12]:
                    print("     " + l)
            if any(g[0] == want[0] for g in got):
                print("VIOLATION property=%s replay=%s" % (prop.ID, replay))
                return 1
            print("replay did not reproduce the violation")
            return 0
        return _batch(prop, seed, tier, scratch, t0)
    finally:
        core.rmtree(scratch)
        try:
            os.rmdir(core.scratch_root())
        except OSError:
            pass


def _batch(prop, seed, tier, scratch, t0):
    n = int(os.environ.get("VERIF_N", "0") or "0") or prop.count(tier)
    nproc = int(os.environ.get("VERIF_JOBS", "16"))
    print("VERIF_SEED=%d property=%s tier=%s scenarios=%d workers=%d" % (seed, prop.ID, tier, n, nproc))
    sys.stdout.flush()
    known = [k for k in load_known() if k.get("property") == prop.ID]
    jobs = [(prop, seed, i, tier, scratch) for i in range(n)]
    agg = {"runs": 0, "steps": 0, "sim_seconds": 0, "fired": {}, "probes": {}, "hashes": set(), "states": set(),
           "nontrivial": 0, "errors": []}
    samples, viol = [], []
    ctx = mp.get_context("fork")
    pool = ctx.Pool(nproc)
    try:
        done = 0
        for res in pool.imap_unordered(_worker, jobs, chunksize=1):
            done += 1
            if res.get("error"):
                agg["errors"].append("scenario %d: %s" % (res["idx"], res["error"]))
                continue
            agg["runs"] += res["runs"]; agg["steps"] += res["steps"]; agg["sim_seconds"] += res["sim_seconds"]
            for k, v in res["fired"].items():
                agg["fired"][k] = agg["fired"].get(k, 0) + v
            for k, v in res["probes"].items():
                agg["probes"][k] = agg["probes"].get(k, 0) + v
            agg["hashes"].update(res["hashes"]); agg["states"].update(res["states"])
            if res["nontrivial"]:
                agg["nontrivial"] += 1
            if res.get("sample") is not None and len(samples) < 3:
                samples.append(res["sample"])
            for v in res["violations"]:
                viol.append((res["idx"], v, res["scn"], res.get("run_hashes", [])))
        if agg["errors"]:
            for e in agg["errors"][:5]:
                print(e)
            core.harness_error("%d scenario(s) failed inside the harness" % len(agg["errors"]))

        # ---------------- violation gate
        viol.sort(key=lambda t: (t[1]["cls"], t[1]["sig"], t[0]))
        groups = {}
        for idx, v, scn, rh in viol:
            groups.setdefault((v["cls"], v["sig"]), []).append((idx, v, scn, rh))
        reported, known_hit, exit_code = [], {}, 0
        os.makedirs(os.path.join(REPLAY_DIR, prop.ID), exist_ok=True)
        per_cls_budget = {}
        for (cls, sig), items in sorted(groups.items()):
            idx, v, scn, rh = items[0]
            # (1) determinism: same scenario, fresh scratch -> same violation, same trace hashes
            out2 = execute_fresh(prop, scn, scratch, "gate%d" % idx)
            if not any(x["cls"] == cls for x in out2.violations) or out2.run_hashes != rh:
                print("scenario %d: violation %s/%s did not reproduce identically (hashes equal: %s)" % (idx, cls, sig, out2.run_hashes == rh))
                for l in v["detail"][:10]:
                    print("    " + l)
                print("    violations on re-run: %s" % [(x["cls"], x["sig"]) for x in out2.violations][:6])
                print("    first differing run: %s (of %d / %d runs)" % (next((i for i, (a, b) in enumerate(zip(rh, out2.run_hashes)) if a != b), None), len(rh), len(out2.run_hashes)))
                core.harness_error("HARNESS-NONDETERMINISM for property %s" % prop.ID)
            # known finding by raw signature? then skip the expensive minimisation
            kf = _match_known(known, cls, sig)
            if kf is not None:
                known_hit.setdefault(kf["key"], [kf, 0, idx])[1] += len(items)
                continue
            # (2) minimise (bounded number of distinct signatures per class per run)
            per_cls_budget[cls] = per_cls_budget.get(cls, 0) + 1
            small, tried = (scn, 0)
            if per_cls_budget[cls] <= 10:
                small, tried = shrink(prop, scn, cls, scratch, pool=pool, ids=v.get("ids", ""))
            out3 = execute_fresh(prop, small, scratch, "min%d" % idx)
            v3 = next((x for x in out3.violations if x["cls"] == cls and x.get("ids", "") == v.get("ids", "")), None)
            if v3 is None:
                small, v3 = scn, v
            kf = _match_known(known, cls, v3["sig"])
            if kf is not None:
                known_hit.setdefault(kf["key"], [kf, 0, idx])[1] += len(items)
                continue
            path = os.path.join(REPLAY_DIR, prop.ID, "seed%d-s%d-%s.json" % (seed, idx, _slug(cls + "-" + v3["sig"])))
            if any(r[2] == path for r in reported):
                continue
            if sum(1 for r in reported if (r[0], r[1]["sig"]) == (cls, v3["sig"])) >= 2:
                continue  # enough examples of this minimised signature
            with open(path, "w") as f:
                json.dump({"property": prop.ID, "verif_seed": seed, "scenario_index": idx, "violation": v3,
                           "scenario": small, "shrink_runs": tried, "described": prop.describe(small)}, f, indent=1)
            # (3) fresh-process replay must reproduce
            p = subprocess.run([sys.executable, "-m", "sim.props." + prop.MODULE, "--replay", path], cwd=VERIF,
                               stdout=subprocess.PIPE, stderr=subprocess.STDOUT, text=True,
                               env=dict(os.environ, VERIF_SCRATCH=os.path.join(scratch, "fresh")))
            if p.returncode != 1:
                print(p.stdout[-3000:])
                core.harness_error("HARNESS-NONDETERMINISM: fresh-process replay of %s did not reproduce" % path)
            reported.append((cls, v3, path, len(items), idx))
        # directed replay of every listed known finding: it is reported on every run, found by the random search or not
        for kf in known:
            if kf.get("status") != "known" or not kf.get("replay"):
                continue
            with open(os.path.join(VERIF, kf["replay"])) as f:
                rep = json.load(f)
            outk = execute_fresh(prop, rep["scenario"], scratch, "known_" + _slug(kf["key"])[:30])
            if any(x["cls"] == kf.get("cls", x["cls"]) and x["sig"] == kf["key"] for x in outk.violations):
                known_hit.setdefault(kf["key"], [kf, 0, -1])
            else:
                print("note: known finding no longer reproduces from %s: %s" % (kf["replay"], kf["key"]))
        for key, (kf, cnt, idx) in sorted(known_hit.items()):
            print("KNOWN-FINDING: property=%s %s [%s; directed replay %s; also met in %d random scenario(s)]" % (prop.ID, kf["what"], key, kf.get("replay", "-"), cnt))
        for cls, v3, path, cnt, idx in reported:
            print("violation class=%s sig=%s scenarios=%d first=#%d" % (cls, v3["sig"], cnt, idx))
            for l in v3["detail"][:14]:
                print("    " + l)
            print("VIOLATION property=%s replay=%s" % (prop.ID, path))
            exit_code = 1
    finally:
        pool.terminate()
        pool.join()

    wall = time.time() - t0
    distinct = len(agg["states"]) if agg["states"] else len(agg["hashes"])
    cov = {
        "evaluations": agg["runs"],
        "scenarios": n,
        "distinct_nontrivial": distinct,
        "rule": prop.RULE,
        "samples": samples or ["(no sample)"],
        "simulated_runs": agg["runs"],
        "runs_per_hour": int(agg["runs"] / wall * 3600) if wall > 0 else 0,
        "seeds": "VERIF_SEED=%d; scenario i uses mix(seed,'%s',i), i<%d" % (seed, prop.ID, n),
        "scheduler_steps": agg["steps"],
        "simulated_seconds": agg["sim_seconds"],
        "distinct_interleavings": len(agg["hashes"]),
        "nontrivial_scenarios": agg["nontrivial"],
        "faults_fired": agg["fired"],
        "reach_probes": agg["probes"],
        "real_vs_stub": prop.REAL_STUB,
        "known_findings_matched": {k: c for k, (kf, c, i) in known_hit.items()},
        "exhaustive": False,
    }
    ev = {"property_id": prop.ID, "tier": tier, "seed": seed, "level": prop.LEVEL, "coverage": cov,
          "assumptions": prop.ASSUMPTIONS, "wall_s": round(wall, 1), "violations": len(reported)}
    os.makedirs(EVID_DIR, exist_ok=True)
    with open(os.path.join(EVID_DIR, prop.ID + ".json"), "w") as f:
        json.dump(ev, f, indent=1, sort_keys=True)
    print("property=%s tier=%s runs=%d distinct=%d steps=%d fired=%s probes=%s wall=%.0fs -> %s" % (
        prop.ID, tier, agg["runs"], distinct, agg["steps"], agg["fired"], agg["probes"], wall,
        "VIOLATIONS" if exit_code else "ok"))
    return exit_code


def _match_known(known, cls, sig):
    for k in known:
        if k.get("status") == "known" and k.get("cls", cls) == cls and k["key"] == sig:
            return k
    return None


def _slug(s):
    return "".join(c if c.isalnum() else "_" for c in s)[:80]
