# Workload generators (DESIGN.md section 5): projects assembled from finding-producing
# atoms, whole-program material, option-sensitive material, suppressions, edits.
# A file's content is a list of chunks (joined by "\n") so that the shrinker can drop chunks.
from .core import Rng

# --------------------------------------------------------------------------- atoms
# (name, langs, ids it is known to produce (first = primary, reported on the atom's *last* line), template)
# {n} is a per-project unique number.  Atoms are self-contained and one finding-line long where possible.
ATOMS = [
    ("aiob", "c+", ["arrayIndexOutOfBounds"], "void f{n}(void){{int a[3];a[3]=0;}}"),
    ("nullp", "c+", ["nullPointer"], "void f{n}(void){{int *p=0;*p=1;}}"),
    ("uninit", "c+", ["uninitvar"], "int f{n}(void){{int x;return x+1;}}"),
    ("zerodiv", "c+", ["zerodiv"], "int f{n}(int y){{return y/0;}}"),
    ("memleak", "c+", ["memleak"], "void f{n}(void){{char*p=malloc(10);if(!p)return;p[0]=1;}}"),
    ("dfree", "c+", ["doubleFree"], "void f{n}(void){{char*p=malloc(10);free(p);free(p);}}"),
    ("nullred", "c+", ["nullPointerRedundantCheck"], "void f{n}(int *p){{ if(p==0){{}} *p=3; }}"),
    ("known", "c+", ["knownConditionTrueFalse"], "int f{n}(int x){{ if(x==1){{ return x==1?4:5; }} return 0;}}"),
    ("unread", "c+", ["unreadVariable"], "void f{n}(void){{int u=5;u=6;}}"),
    ("unusedvar", "c+", ["unusedVariable"], "void f{n}(void){{int unusedv;}}"),
    ("shadow", "c+", ["shadowVariable"], "int sh{n}; void f{n}(void){{int sh{n}=1;(void)sh{n};}}"),
    ("constparam", "c+", ["constParameterPointer"], "void f{n}(int *cp){{ (void)*cp; }}"),
    ("member", "c+", ["unusedStructMember"], "struct st{n} {{ int used; int unusedmember; }}; int f{n}(const struct st{n}*p){{return p->used;}}"),
    ("ptrcast", "c+", ["invalidPointerCast"], "void f{n}(float*fp){{ const int *ip=(const int*)fp; (void)*ip; }}"),
    ("aiobcond", "c+", ["arrayIndexOutOfBoundsCond"], "void f{n}(int a){{ int b[10]; if(a==10){{}} b[a]=0; }}"),
    ("alloca", "c", ["allocaCalled"], "void f{n}(void){{ char *p = alloca(10); p[0]=0; }}"),
    ("incdiv", "c+", ["zerodiv"], "int f{n}(void){{ int a=0; ext{n}(a); return 4/a; }}"),       # inconclusive only
    ("incast", "c+", ["invalidPointerCast"], "void f{n}(float*d){{ wr{n}((char*)d,sizeof(float)); }}"),  # inconclusive portability
    ("plat", "c+", ["arrayIndexOutOfBounds"], "void f{n}(void){{ int a[sizeof(long)==8?10:2]; a[5]=0; }}"),  # 32-bit long only
    ("shift", "c+", ["shiftTooManyBits"], "void f{n}(void){{ long x = 1L<<40; (void)x; }}"),     # 32-bit long only
    ("posix", "c", ["invalidFunctionArg"], "void f{n}(void){{ usleep(2000000); }}"),              # --library=posix
    ("posixleak", "c", ["resourceLeak"], "void f{n}(void){{ int fd = open(\"x\",0); (void)fd; }}"),
    ("redundant", "c+", ["redundantAssignment"], "void f{n}(int x){{ int i; i = x; i = 2; (void)i; }}"),
    ("ptroob", "c+", ["pointerOutOfBounds"], "void f{n}(void){{ char a[10]; const char *p = a + 11; (void)p; }}"),
    ("unsignedlt", "c+", ["unsignedLessThanZero"], "int f{n}(unsigned u){{ if (u < 0) return 1; return 0; }}"),
    ("wchar2", "c+", ["arrayIndexOutOfBounds"], "void f{n}(void){{ int a[sizeof(wchar_t)==2?2:10]; a[5]=0; }}"),   # 16-bit wchar_t: win32A/win32W/win64, not unix32
    ("gnulib", "c+", ["bufferAccessOutOfBounds"], "void f{n}(void){{ char b[4]; mempcpy(b, \"abcdefgh\", 8); }}"),   # --library=gnu only
    ("winlib", "c+", ["bufferAccessOutOfBounds"], "void f{n}(void){{ char b[4]; ZeroMemory(b, 8); }}"),              # --library=windows / windows platforms only
    ("c11assert", "c", ["duplicateExpression"], "void f{n}(int a){{ _Static_assert(sizeof(a) == sizeof(a), \"m\"); }}"),  # not with --std=c11 (default)
    ("cpp11assert", "+", ["duplicateExpression"], "void f{n}(int a){{ static_assert(sizeof(a) == sizeof(a), \"m\"); (void)a; }}"),  # only with --std=c++03
    ("override", "+", ["missingOverride"], "struct B{n}{{virtual void f(); virtual ~B{n}();}}; struct D{n}:B{n}{{ void f(); }};"),   # not with --std=c++03
    ("manycfg", "c+", ["zerodiv"], "\n".join("#ifdef MC{n}_%d\nint mc{n}_%d(int y){{return y/0;}}\n#endif" % (k, k) for k in range(14))),  # 14 configurations: beyond the default limit of 12 unless --force
    ("sysinc", "c", ["missingIncludeSystem"], "#include <nothere{n}.h>"),     # information severity
    ("vfiter", "c+", ["zerodiv"], "static int zero{n}(void){{return 0;}} int f{n}(void){{int a=zero{n}(); return 10/a;}}"),   # needs a second valueflow iteration: not with --check-level=reduced
    ("branches", "c+", ["zerodiv"], "int gb{n}(int); int f{n}(int a,int b,int c,int d,int e,int h){{ int x=0; if(a){{gb{n}(1);}} if(b){{gb{n}(2);}} if(c){{gb{n}(3);}} if(d){{gb{n}(4);}} if(e){{gb{n}(5);}} if(h){{gb{n}(6);}} return 10/x; }}"),  # only with --check-level=exhaustive
    # library-evaluated calls (std.cfg <returnValue> expressions, format strings, buffer sizes, containers)
    ("libabs", "c+", ["arrayIndexOutOfBounds"], "int f{n}(void){{ int a[3]={{0}}; return a[abs(-5)]; }}"),
    ("libtoupper", "c+", ["arrayIndexOutOfBounds"], "int f{n}(void){{ int a[3]={{0}}; return a[toupper('a')]; }}"),
    ("libisdigit", "c+", ["zerodiv"], "int f{n}(void){{ return 10 / (isdigit('x')); }}"),
    ("libstrlen", "c+", ["arrayIndexOutOfBounds"], "int f{n}(void){{ int a[2]={{0}}; return a[strlen(\"abc\")]; }}"),
    ("libsqrt", "c+", ["arrayIndexOutOfBounds"], "int f{n}(void){{ int a[3]={{0}}; return a[(int)sqrt(16.0)]; }}"),
    ("libfabs", "c+", ["arrayIndexOutOfBounds"], "int f{n}(void){{ int a[3]={{0}}; return a[(int)fabs(-4.0)]; }}"),
    ("libisalpha", "c+", ["arrayIndexOutOfBounds"], "int f{n}(void){{ int a[2]={{0}}; return a[isalpha('a') ? 5 : 0]; }}"),
    ("libprintf", "c+", ["invalidPrintfArgType_sint"], "void f{n}(void){{ printf(\"%d\\n\", \"str\"); }}"),
    ("libmemset", "c+", ["bufferAccessOutOfBounds"], "void f{n}(void){{ char b[4]; memset(b, 0, 8); }}"),
    ("cppstring", "+", ["containerOutOfBounds"], "void f{n}(){{ std::string s; s[2]='a'; }}"),
    ("cppfront", "+", ["containerOutOfBounds"], "int f{n}(){{ std::vector<int> v; return v.front(); }}"),
    ("cppsize", "+", ["arrayIndexOutOfBounds"], "int f{n}(){{ std::string s(\"abc\"); int a[2]={{0}}; return a[s.size()]; }}"),
    ("tstr", "c+", ["arrayIndexOutOfBounds"], "void f{n}(void){{ char a[4]; a[sizeof(_T(\"abc\"))-1]=0; }}"),   # win32W / win64 only (wide _T)
    ("win64", "c+", ["arrayIndexOutOfBounds"], "void f{n}(void){{ int a[(sizeof(void*)==8 && sizeof(long)==4)?2:10]; a[5]=0; }}"),  # win64 only
    ("defval", "c+", ["zerodiv"], "#if defined(CFG_V) && CFG_V==2\nint f{n}(int y){{return y/0;}}\n#endif"),      # -DCFG_V=2 only
    ("cstyle", "+", ["cstyleCast"], "void f{n}(const char*s){{ char*t=(char*)s; (void)t; }}"),
    ("byvalue", "+", ["passedByValue"], "void f{n}(std::string s){{ (void)s.size(); }}"),
    ("postfix", "+", ["postfixOperator"], "void f{n}(std::list<int>&l){{ for(std::list<int>::iterator it=l.begin(); it!=l.end(); it++){{}} }}"),
    ("uninitmember", "+", ["uninitMemberVar"], "class K{n} {{ public: K{n}(){{}} int m; }};"),
    ("fstatic", "+", ["functionStatic"], "class C{n} {{ public: int g(){{ return 1; }} int m; C{n}():m(0){{}} }};"),
    # several entities / findings at one and the same source location (macro expansion): comparators that order by location tie
    ("macrodecl", "c+", ["constVariablePointer"], "#define DECLP{n}(T,a,b,c,src) T *a = src; T *b = src; T *c = src\nint f{n}(int *data){{ DECLP{n}(int,p{n}a,p{n}b,p{n}c,data); return *p{n}a + *p{n}b + *p{n}c; }}"),
    ("macrotwice", "c+", ["zerodiv"], "#define TWO{n}(x,y) ((x)/0 + (y)/0)\nint f{n}(int a, int b){{ return TWO{n}(a,b); }}"),
    ("contoob", "+", ["containerOutOfBoundsIndexExpression"], "void f{n}(std::vector<int>&v){{ v[v.size()]=0; }}"),
]
# directives whose messages carry non-ASCII bytes verbatim (stress for the inter-process encoding and the text channel)
UTF8_ATOMS = ['#include "h\u00e4der{n}.h"', '#ifdef CFG_U{n}\n#error \u00fcml\u00e4ut {n} \u4e2d\n#endif', '#include <sys/\u00fc{n}.h>']
ATOM_BY_NAME = {a[0]: a for a in ATOMS}
BENIGN = ["int ok{n}(int a){{ return a+1; }}", "/* filler {n} */", "static int sv{n} = 3; int get{n}(void){{ return sv{n}; }}"]


_CORPUS = None


def corpus():
    """Self-contained functions taken from cppcheck's own library tests (sim/corpus.json, made by tools/mkcorpus.py)."""
    global _CORPUS
    if _CORPUS is None:
        import json, os
        with open(os.path.join(os.path.dirname(os.path.abspath(__file__)), "corpus.json")) as f:
            _CORPUS = json.load(f)
    return _CORPUS


def corpus_chunks(rng, lang, k, used):
    """k corpus functions not yet used in this project -> (prelude_chunk, [function chunks])."""
    c = corpus()["cpp" if lang == "cpp" else "c"]
    picks = []
    for _ in range(k * 3):
        i = rng.below(len(c["blocks"]))
        if (lang, i) not in used:
            used.add((lang, i)); picks.append(c["blocks"][i])
        if len(picks) >= k:
            break
    return c["prelude"], picks


def atom_ok(atom, lang):
    return ("c" in atom[1] and lang == "c") or ("+" in atom[1] and lang == "cpp")


class Counter:
    def __init__(self):
        self.n = 0

    def next(self):
        self.n += 1
        return self.n


def make_atom(rng, ctr, lang, names=None, inline=None):
    """Returns (chunk_text, primary_id). inline: None | 'match' | 'nomatch' | 'next2' adds an inline suppression comment."""
    cands = [a for a in ATOMS if atom_ok(a, lang) and (names is None or a[0] in names)]
    a = rng.choice(cands)
    n = ctr.next()
    text = a[3].format(n=n)
    pid = a[2][0]
    if inline == "match":
        form = rng.below(4)
        if form == 0:
            text = "// cppcheck-suppress %s\n%s" % (pid, text)
        elif form == 1:
            text = "%s // cppcheck-suppress %s" % (text, pid)
        elif form == 2:
            text = "// cppcheck-suppress [%s,unreadVariable]\n%s" % (pid, text)
        else:
            text = "// cppcheck-suppress-begin %s\n%s\n// cppcheck-suppress-end %s" % (pid, text, pid)
    elif inline == "nomatch":
        other = rng.choice(["wrongId%d" % n, "memleak" if pid != "memleak" else "zerodiv", "syntaxError"])
        text = "// cppcheck-suppress %s\n%s" % (other, text)
    return text, pid


# --------------------------------------------------------------------------- whole-program material
def wp_material(rng, ctr, units, lang_of):
    """Adds cross-unit chains. Returns (decls_for_header, per_unit_chunks: {unit: [chunk...]})."""
    decls, per = [], {u: [] for u in units}
    if len(units) < 2:
        return decls, per
    kinds = ["null", "uninit", "index", "unused", "used", "nested", "odr", "nested3", "null_var", "index_sz", "ptrarith", "nested4",
             "samefile_used", "multi_site", "cpp_members", "nested_shift", "nested_shift", "cfg_null", "both_lists"]
    for _ in range(rng.randint(1, 4)):
        k = rng.choice(kinds)
        n = ctr.next()
        us = rng.sample(units, min(len(units), 3))
        a, b = us[0], us[1]
        c = us[2] if len(us) > 2 else us[0]
        if k == "null":
            decls.append("void wpd%d(int*p);" % n)
            per[a].append("void wpd%d(int*p){*p=0;}" % n)
            per[b].append("void wpc%d(void){wpd%d(0);}" % (n, n))
        elif k == "uninit":
            decls.append("void wpu%d(int*p);" % n)
            per[a].append("int wpg%d; void wpu%d(int*p){wpg%d=*p;}" % (n, n, n))
            per[b].append("void wpc%d(void){int v; wpu%d(&v);}" % (n, n))
        elif k == "index":
            decls.append("void wpi%d(int*a);" % n)
            per[a].append("void wpi%d(int*a){a[10]=0;}" % n)
            per[b].append("void wpc%d(void){int arr[5]; wpi%d(arr);}" % (n, n))
        elif k == "unused":
            per[a].append("void wpunused%d(void){}" % n)
        elif k == "used":
            decls.append("int wpused%d(int);" % n)
            per[a].append("int wpused%d(int q){return q+%d;}" % (n, n))
            per[b].append("int wpcall%d(void){return wpused%d(1);}" % (n, n))
        elif k in ("nested", "nested3"):
            decls.append("void wpd%d(int*p); void wpm%d(int*p);" % (n, n))
            per[a].append("void wpd%d(int*p){*p=0;}" % n)
            per[b].append("void wpm%d(int*p){wpd%d(p);}" % (n, n))
            per[c if k == "nested3" else a].append("void wpt%d(void){wpm%d(0);}" % (n, n))
        elif k == "nested_shift":
            # the forwarding function receives the pointer at one position and passes it on at another
            pin, pout = rng.sample([1, 2, 3], 2)
            par = lambda pos, nm: ", ".join(("int*%s" % nm if i == pos else "int a%d" % i) for i in range(1, 4))
            arg = lambda pos, v: ", ".join((v if i == pos else str(i + 10)) for i in range(1, 4))
            decls.append("void wpl%d(%s); void wpf%d(%s);" % (n, par(pout, "p"), n, par(pin, "p")))
            per[a].append("void wpl%d(%s){*p=0;}" % (n, par(pout, "p")))
            per[b].append("void wpf%d(%s){wpl%d(%s);}" % (n, par(pin, "p"), n, arg(pout, "p")))
            bad = rng.chance(0.6)
            # either a real null reaches the leaf, or a null constant sits at the position the pointer is forwarded *to*
            if bad:
                per[c].append("void wpg%d(void){wpf%d(%s);}" % (n, n, arg(pin, "0")))
            else:
                args = ", ".join(("&x" if i == pin else "0" if i == pout else str(i + 10)) for i in range(1, 4))
                per[c].append("void wpg%d(void){int x=0; wpf%d(%s);}" % (n, n, args.replace("0", "(int*)0") if False else args))
        elif k == "null_var":
            # null passed through a variable / a conditional expression with XML-special characters, as 2nd or 3rd argument
            pos = rng.randint(1, 3)
            params = ", ".join(("int*p" if i == pos else "int a%d" % i) for i in range(1, 4))
            decls.append("void wpv%d(%s);" % (n, params))
            per[a].append("void wpv%d(%s){*p=0;}" % (n, params))
            args = ", ".join((rng.choice(["q", "(x<1&&x>-1)?0:0", "(int*)0"]) if i == pos else str(i)) for i in range(1, 4))
            per[b].append("void wpcv%d(int x){int*q=0; (void)x; wpv%d(%s);}" % (n, n, args))
        elif k == "index_sz":
            sz, off = rng.choice([(3, 3), (5, 10), (2, 100), (8, 8), (4, 1000)])
            decls.append("void wpx%d(int*a);" % n)
            per[a].append("void wpx%d(int*a){a[%d]=0;}" % (n, off))
            per[b].append("void wpcx%d(void){int arr[%d]; arr[0]=0; wpx%d(arr);}" % (n, sz, n))
        elif k == "ptrarith":
            decls.append("int wpa%d(const int*p);" % n)
            per[a].append("int wpa%d(const int*p){const int*q=p+%d; return *q;}" % (n, rng.choice([7, 20, 300])))
            per[b].append("int wpca%d(void){int arr[5]={0}; return wpa%d(arr);}" % (n, n))
        elif k == "nested4":
            decls.append("void wpd%d(int*p); void wpm%d(int*p); void wpn%d(int*p);" % (n, n, n))
            per[a].append("void wpd%d(int*p){*p=0;}" % n)
            per[b].append("void wpm%d(int*p){wpd%d(p);}" % (n, n))
            per[c].append("void wpn%d(int*p){wpm%d(p);}" % (n, n))
            per[a].append("void wpt%d(void){wpn%d(0);}" % (n, n))
        elif k == "samefile_used":
            per[a].append("int wps%d(int q){return q*%d;}\nint wpsc%d(void){return wps%d(2);}" % (n, n, n, n))
        elif k == "multi_site":
            decls.append("void wpd%d(int*p);" % n)
            per[a].append("void wpd%d(int*p){*p=0;}" % n)
            per[b].append("void wpc%d(void){wpd%d(0);}\nvoid wpe%d(int*ok){wpd%d(ok);}" % (n, n, n, n))
            per[c].append("void wpf%d(void){wpd%d(0);}" % (n, n))
        elif k == "cpp_members":
            cpp = [u for u in units if lang_of[u] == "cpp"]
            if cpp:
                x = rng.choice(cpp)
                per[x].append("}\nnamespace ns%d { class W%d { public: int used%d(int q){return q;} int unusedm%d(){return 1;} static int st%d(){return 2;} }; template<class T> T tpl%d(T v){return v;} int call%d(){ W%d w; return w.used%d(1)+tpl%d<int>(3); } }\nextern \"C\" {" % (n, n, n, n, n, n, n, n, n, n))
        elif k == "cfg_null":
            # the callee dereferences only in one preprocessor configuration: summaries are written per configuration
            decls.append("void wpk%d(int*p);" % n)
            per[a].append("#ifdef CFG_W%d\nvoid wpk%d(int*p){*p=0;}\n#else\nvoid wpk%d(int*p){(void)p;}\n#endif" % (n, n, n))
            per[b].append("void wpck%d(void){wpk%d(0);}" % (n, n))
        elif k == "both_lists":
            # one unit with an unsafe array index *and* unsafe pointer arithmetic on parameters (two lists in one summary element)
            decls.append("void wpbi%d(int*a); int wpbp%d(const int*p);" % (n, n))
            per[a].append("void wpbi%d(int*a){a[10]=0;}\nint wpbp%d(const int*p){const int*q=p+20; return *q;}" % (n, n))
            per[b].append("void wpcb%d(void){int arr[5]; arr[0]=0; wpbi%d(arr);}" % (n, n))
            per[c].append("int wpcp%d(void){int arr[5]={0}; return wpbp%d(arr);}" % (n, n))
        elif k == "odr":
            cpp = [u for u in units if lang_of[u] == "cpp"]
            if len(cpp) >= 2:
                x, y = rng.sample(cpp, 2)
                per[x].append("struct Odr%d { int a; int f(){return a;} };" % n)
                per[y].append("struct Odr%d { char a; int b; int f(){return b;} };" % n)
    return decls, per


# --------------------------------------------------------------------------- project
# names containing ';', ':', '#' or non-ASCII bytes hit known defects K2-K5 at many points; they are exercised by the directed
# replays listed in known_findings.json and kept out of the random stream so that it can explore past them
WEIRD_NAMES = ["sp ace.c", "quo'te.c", "a.b.c", "eq=ual.c", "pl+us.c", "com,ma.c", "at@.c", "per%cent.c"]


def gen_project(rng, n_units=None, wp=True, inline=0.25, headers=True, weird_names=0.0, big=0.0, cfg_blocks=0.3,
                atoms=None, same_basename=0.0, lang_mix=True, max_atoms=5, utf8=0.0, hdr_inline=0.0, computed_inc=0.0, corpus=0.0, nested_hdr=0.0):
    """Returns dict(tree={path:[chunks]}, units=[paths in command-line order], langs={path:lang})."""
    ctr = Counter()
    nu = n_units or rng.randint(1, 6)
    units, langs = [], {}
    dirs = ["", "src/", "lib/src/"]
    used = set()
    for i in range(nu):
        lang = "cpp" if (lang_mix and rng.chance(0.35)) else "c"
        ext = ".cpp" if lang == "cpp" else ".c"
        if rng.chance(weird_names) and lang == "c":
            name = rng.choice(WEIRD_NAMES)
        elif rng.chance(same_basename) and units:
            name = units[0].split("/")[-1]
            lang = langs[units[0]]
            # Two units with one basename, but neither path a suffix of the other: suffix-related names additionally hit known
            # finding K10 (inline suppressions of 'x.c' match 'dir/x.c' in single-job runs), which is pinned by a directed replay.
            if "/" not in units[0] or not units[0].startswith("dupB/"):
                old0 = units[0]
                units[0] = "dupB/" + name
                used.discard(old0); used.add(units[0])
                langs[units[0]] = langs.pop(old0)
            p = "dupA%d/%s" % (len(units), name)
            used.add(p); units.append(p); langs[p] = lang
            continue
        else:
            name = "u%d%s" % (i, ext)
        d = rng.choice(dirs) if (rng.chance(0.3) or name in [u.split("/")[-1] for u in units]) else ""
        p = d + name
        k = 0
        while p in used:
            k += 1
            p = "%sd%d/%s" % (d, k, name)
        used.add(p)
        units.append(p)
        langs[p] = lang
    tree = {}
    corpus_used = set()
    hdr_atoms = []
    if headers and rng.chance(0.7 if headers is True else headers):
        # a finding located in a header shared by several units: the duplicate filters' reason to exist
        for _ in range(rng.randint(1, 2)):
            n = ctr.next()
            hdr_atoms.append(rng.choice([
                "static inline int hz%d(int y){return y/0;}" % n,
                "static inline void hn%d(void){int *p=0;*p=1;}" % n,
                "#define HDIV%d(x) ((x)/0)" % n,
            ]))
    if hdr_atoms and hdr_inline and rng.chance(hdr_inline):
        # an inline suppression inside the shared header that matches nothing
        i = rng.below(len(hdr_atoms))
        if rng.chance(0.5):
            # ... on a line without any finding (a finding on the line, even a non-matching one, marks the suppression as checked)
            n = ctr.next()
            hdr_atoms.append("// cppcheck-suppress neverReportedH%d\nstatic inline int hok%d(int y){return y+1;}" % (n, n))
            computed_inc = 0.0
        elif not hdr_atoms[i].startswith("#"):
            hdr_atoms[i] = "// cppcheck-suppress neverReportedH%d\n%s" % (ctr.next(), hdr_atoms[i])
            # inline suppressions of a header that is reached through a computed include are not seen by the including unit
            # (known finding K12, pinned by a directed replay): the two features are kept apart in the random stream
            computed_inc = 0.0
    decls, wpper = wp_material(rng, ctr, units, langs) if wp else ([], {u: [] for u in units})
    up = {}
    for u in units:
        depth = u.count("/")
        up[u] = "../" * depth
    if hdr_atoms or decls:
        guard = "#ifndef SHARED_H\n#define SHARED_H"
        ext_c = "#ifdef __cplusplus\nextern \"C\" {\n#endif"
        ext_e = "#ifdef __cplusplus\n}\n#endif"
        inner = []
        if nested_hdr and hdr_atoms and rng.chance(nested_hdr):
            # a header that is only reached through another header
            inner = [hdr_atoms.pop(rng.below(len(hdr_atoms)))]
            tree["inner.h"] = ["#ifndef INNER_H\n#define INNER_H"] + inner + ["#endif"]
        tree["shared.h"] = [guard, ext_c] + decls + [ext_e] + (['#include "inner.h"'] if inner else []) + hdr_atoms + ["#endif"]
        hdr_atoms = hdr_atoms + inner
    for u in units:
        lang = langs[u]
        chunks = []
        if lang == "cpp":
            chunks.append("#include <string>\n#include <vector>\n#include <list>")
        if "shared.h" in tree and (rng.chance(0.8) or wpper[u]):
            if computed_inc and rng.chance(computed_inc):
                # computed include: the header name is only known after macro expansion
                chunks.append('#define SHARED_HDR "%sshared.h"\n#include SHARED_HDR' % up[u])
            else:
                chunks.append('#include "%sshared.h"' % up[u])
            for h in hdr_atoms:
                if h.startswith("#define HDIV") and rng.chance(0.6):
                    nm = h.split("(")[0].split()[1]
                    chunks.append("int um%d(int q){return %s(q);}" % (ctr.next(), nm))
        if lang == "cpp" and wpper[u]:
            chunks.append('extern "C" {')
            chunks.extend(wpper[u])
            chunks.append("}")
        else:
            chunks.extend(wpper[u])
        if atoms == "none":
            for _ in range(rng.randint(1, 3)):
                chunks.append(rng.choice(BENIGN).format(n=ctr.next()))
        for _ in range(rng.randint(1, max_atoms) if atoms != "none" else 0):
            mode = None
            if rng.chance(inline):
                mode = "match" if rng.chance(0.6) else "nomatch"
            t, _pid = make_atom(rng, ctr, lang, names=atoms, inline=mode)
            chunks.append(t)
            if rng.chance(0.3):
                chunks.append(rng.choice(BENIGN).format(n=ctr.next()))
        if rng.chance(cfg_blocks):
            n = ctr.next()
            chunks.append("#ifdef CFG_A\nint fa%d(int y){return y/0;}\n#endif" % n)
            if rng.chance(0.5):
                chunks.append("#ifdef CFG_B\nvoid fb%d(void){int q[2];q[2]=0;}\n#endif" % n)
        if rng.chance(utf8):
            chunks.insert(rng.below(len(chunks) + 1) if lang == "c" else len(chunks), rng.choice(UTF8_ATOMS).format(n=ctr.next()))
        if rng.chance(big):
            n = ctr.next()
            ln = rng.choice([3000, 5000, 40000])
            nm = "v" + ("x" * ln) + str(n)
            chunks.append("int fbig%d(void){int %s;return %s+1;}" % (n, nm, nm))
        if corpus and rng.chance(corpus):
            # library-test functions: far more varied library calls / containers / format strings than the atoms
            prelude, picks = corpus_chunks(rng, lang, rng.randint(2, 7), corpus_used)
            chunks = [prelude] + chunks + picks
        tree[u] = chunks
    return {"tree": tree, "units": units, "langs": langs}


def join_tree(tree):
    return {p: ("\n".join(ch) + "\n" if isinstance(ch, list) else ch) for p, ch in tree.items()}


# --------------------------------------------------------------------------- options
BASE_ENABLE = ["--enable=style,warning,performance,portability", "--enable=all", "--enable=warning", "--enable=style",
               "--enable=style,information", "--enable=warning,performance,portability,information", ""]

OPTION_POOL = {
    "--platform": ["--platform=unix32", "--platform=unix64", "--platform=win64", "--platform=win32A", "--platform=win32W", "--platform=native", ""],
    "--std": ["--std=c89", "--std=c99", "--std=c11", "--std=c++03", "--std=c++11", "--std=c99 --std=c++03", ""],
    "--language": ["--language=c++", "--language=c", ""],
    "--library": ["--library=posix", "--library=gnu", "--library=windows", "--library=posix --library=gnu", ""],
    "-D": ["-DCFG_A", "-DCFG_B", "-DCFG_A -DCFG_B", "-DCFG_V=1", "-DCFG_V=2", "-DCFG_A -DCFG_V=2", ""],
    "-U": ["-UCFG_A", "-UCFG_B", ""],
    "-I": ["-Iinc", "-Iinc2", "-Iinc2 -Iinc", ""],
    "--inconclusive": ["--inconclusive", ""],
    "--max-configs": ["--max-configs=1", "--max-configs=2", "--force", ""],
    "--check-level": ["--check-level=exhaustive", "--check-level=normal", "--check-level=reduced", ""],
    "--enable": ["--enable=style", "--enable=warning", "--enable=all", "--enable=performance,portability", "--enable=warning,performance,portability",
                 "--enable=performance", "--enable=portability", "--enable=information", "--enable=warning,information",
                 "--enable=unusedFunction", "--enable=style,unusedFunction", "--enable=missingInclude",
                 "--enable=style,warning,performance,portability,information", ""],
    "--suppress": ["--suppress=zerodiv", "--suppress=arrayIndexOutOfBounds", "--suppress=*:shared.h", "--suppress=unreadVariable",
                   "--suppress=zerodiv:u0.c:1", "--suppress=zerodiv:u0.c:2", "--suppress=zerodiv:u0.c:3", "--suppress=zerodiv:u1.c", "--suppress=zero*", ""],
    "--inline-suppr": ["--inline-suppr", ""],
}


def gen_option_set(rng, keys=None, density=0.35):
    opts = {}
    for k in (keys or OPTION_POOL.keys()):
        if rng.chance(density):
            v = rng.choice(OPTION_POOL[k])
            if v:
                opts[k] = v
    return opts


def flatten_opts(opts):
    out = []
    for k in sorted(opts):
        out.extend(opts[k].split())
    return out


# --------------------------------------------------------------------------- edits (C18)
SHIFTS = [1, 2, 3, 7, 10, 255, 256, 257, 512, 65536]


EDIT_KINDS = ["token", "token", "lineshift", "colshift", "comment", "header", "add", "remove", "move", "swap", "touch",
              "drop_include", "drop_include", "inline_add", "inline_hdr", "inline_nomatch", "inline_remove"]


def gen_edit(rng, tree, units, langs, ctr_start=1000, kinds=None):
    """Returns (description, {path: new_chunks|None}, new_units, new_langs). tree values are chunk lists."""
    kinds = kinds or EDIT_KINDS
    for _attempt in range(10):
        k = rng.choice(kinds)
        files = [p for p in tree if p in units]
        if not files:
            return None
        p = rng.choice(files)
        ch = list(tree[p])
        n = ctr_start + rng.below(100000)
        if k == "token":
            lang = langs[p]
            ctr = Counter(); ctr.n = n
            t, _ = make_atom(rng, ctr, lang)
            if rng.chance(0.5) or len(ch) < 2:
                ch.insert(rng.below(len(ch) + 1) if langs[p] == "c" else len(ch), t)
            else:
                del ch[rng.randint(1, len(ch) - 1)]
            return ("token edit %s" % p, {p: ch}, units, langs)
        if k == "lineshift":
            s = rng.choice(SHIFTS) if rng.chance(0.8) else rng.randint(1, 1000)
            pos = rng.below(len(ch) + 1) if rng.chance(0.5) else 0
            ch.insert(pos, "\n" * (s - 1))
            return ("line shift by %d in %s" % (s, p), {p: ch}, units, langs)
        if k == "colshift":
            s = rng.choice([1, 4, 255, 256, 257])
            i = rng.below(len(ch))
            if ch[i].startswith("#") or "\n" in ch[i] or "cppcheck-suppress" in ch[i]:
                continue
            ch[i] = " " * s + ch[i]
            return ("column shift by %d in %s" % (s, p), {p: ch}, units, langs)
        if k == "comment":
            ch.insert(rng.below(len(ch) + 1), "/* c%d */" % n)
            return ("comment-only edit %s" % p, {p: ch}, units, langs)
        if k == "inline_add":
            i = rng.below(len(ch))
            if ch[i].startswith("#") or ch[i].startswith("//"):
                continue
            ch[i] = "// cppcheck-suppress %s\n%s" % (rng.choice(["zerodiv", "arrayIndexOutOfBounds", "nullPointer", "uninitvar", "unreadVariable"]), ch[i])
            return ("add inline suppression in %s" % p, {p: ch}, units, langs)
        if k == "inline_nomatch":
            # comment-only edit: a suppression that matches nothing (reported as unmatchedSuppression with information enabled)
            i = rng.below(len(ch))
            if ch[i].startswith("#") or ch[i].startswith("//"):
                continue
            sid = rng.choice(["neverReported%d" % (n % 50), "memleak", "syntaxError"])
            if rng.chance(0.6) and not ch[i].split("\n")[-1].startswith("#") and "//" not in ch[i].split("\n")[-1]:
                ch[i] = "%s // cppcheck-suppress %s" % (ch[i], sid)     # same-line form: no token moves, not even by a line
            else:
                ch[i] = "// cppcheck-suppress %s\n%s" % (sid, ch[i])
            return ("add inline suppression (unmatched) in %s" % p, {p: ch}, units, langs)
        if k == "inline_remove":
            idx = [i for i, c in enumerate(ch) if (c.startswith("// cppcheck-suppress ") and "\n" in c) or " // cppcheck-suppress " in c.split("\n")[-1]]
            if not idx:
                continue
            i = rng.choice(idx)
            if " // cppcheck-suppress " in ch[i].split("\n")[-1]:
                ch[i] = ch[i][:ch[i].rindex(" // cppcheck-suppress ")] + (" // was suppressed" if rng.chance(0.5) else "")
            else:
                ch[i] = ch[i].split("\n", 1)[1]
            return ("remove inline suppression in %s" % p, {p: ch}, units, langs)
        if k in ("inline_hdr_nomatch", "inline_hdr") and any("#include SHARED_HDR" in c for q in tree if q != "shared.h" for c in tree[q] if isinstance(c, str)):
            continue     # see K12 in gen_project
        if k == "inline_hdr_nomatch" and "shared.h" in tree:
            h = list(tree["shared.h"])
            idx = [i for i, c in enumerate(h) if c.startswith("static inline")]
            if not idx:
                continue
            i = rng.choice(idx)
            h[i] = "// cppcheck-suppress %s\n%s" % (rng.choice(["neverReported%d" % (n % 50), "memleak"]), h[i])
            return ("header inline suppression (unmatched) added", {"shared.h": h}, units, langs)
        if k == "inline_hdr" and "shared.h" in tree:
            h = list(tree["shared.h"])
            idx = [i for i, c in enumerate(h) if c.startswith("static inline")]
            if not idx:
                continue
            i = rng.choice(idx)
            h[i] = "// cppcheck-suppress %s\n%s" % (rng.choice(["zerodiv", "nullPointer", "unreadVariable"]), h[i])
            return ("header inline suppression added", {"shared.h": h}, units, langs)
        if k == "inner_header" and "inner.h" in tree:
            h = list(tree["inner.h"])
            if rng.chance(0.5):
                h.insert(len(h) - 1, "static inline int hz%d(int y){return y/0;}" % n)
            else:
                h.insert(1, "\n" * rng.choice([1, 5, 256]))
            return ("inner header edit", {"inner.h": h}, units, langs)
        if k == "header" and "shared.h" in tree:
            h = list(tree["shared.h"])
            if rng.chance(0.5):
                h.insert(len(h) - 1, "static inline int hz%d(int y){return y/0;}" % n)
            else:
                h.insert(1, "\n" * rng.choice([1, 5, 256]))
            return ("header edit", {"shared.h": h}, units, langs)
        if k == "add" and len(units) < 8:
            lang = "c"
            np_ = "added%d.c" % n
            ctr = Counter(); ctr.n = n
            t, _ = make_atom(rng, ctr, lang)
            nu = list(units); nu.insert(rng.below(len(nu) + 1), np_)
            nl = dict(langs); nl[np_] = lang
            return ("add file %s" % np_, {np_: [t]}, nu, nl)
        if k == "remove" and len(units) > 1:
            nu = [u for u in units if u != p]
            nl = {u: l for u, l in langs.items() if u != p}
            return ("remove file %s" % p, {p: None}, nu, nl)
        if k == "move":
            base = p.split("/")[-1]
            np_ = "moved%d/%s" % (n % 7, base)
            if np_ in tree:
                continue
            # keep include paths valid
            ch2 = [c.replace('#include "shared.h"', '#include "../shared.h"').replace('#define SHARED_HDR "shared.h"', '#define SHARED_HDR "../shared.h"') if p.count("/") == 0 else c for c in ch]
            if p.count("/") != 0 and any("shared.h" in c for c in ch):
                continue
            nu = [np_ if u == p else u for u in units]
            nl = {(np_ if u == p else u): l for u, l in langs.items()}
            return ("move %s -> %s" % (p, np_), {p: None, np_: ch2}, nu, nl)
        if k == "swap" and len(files) >= 2:
            q = rng.choice([f for f in files if f != p])
            if langs[p] != langs[q] or p.count("/") != q.count("/"):
                continue
            return ("swap contents %s <-> %s" % (p, q), {p: list(tree[q]), q: list(tree[p])}, units, langs)
        if k == "touch":
            return ("touch %s" % p, {p: ch}, units, langs)
        if k == "drop_include":
            idx = [i for i, c in enumerate(ch) if c.startswith('#include "') and "shared.h" in c]
            if not idx:
                continue
            # only safe if the unit does not use anything from the header
            body = "\n".join(c for i, c in enumerate(ch) if i not in idx)
            if langs[p] != "c" and ("HDIV" in body or "wp" in body):
                continue
            del ch[idx[0]]
            return ("drop #include of shared.h in %s" % p, {p: ch}, units, langs)
    return None
