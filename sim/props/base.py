# Shared pieces of the per-property modules.
import os

from .. import core, gen
from ..core import Rng, mix
from ..engine import Outcome

STD = ["--xml", "-q"]
REAL_STUB = ("real: complete cppcheck CLI+lib built from /repo working tree (threads, mutexes, fork/pipe protocol, cache files "
             "on a real file system); simulated by libverifsim inside the process: thread scheduling at every mutex/join/create/"
             "file-op, worker-process transport (pipes modelled: 4096-byte atomic chunks, 64KiB capacity, EOF), waitpid/select/"
             "loadavg outcomes, kill points, readdir order, clocks, heap layout; stub: addon executable (simaddon)")


def exec_args(run):
    e = run.get("exec", "j1")
    if e == "j1":
        return ["-j1"]
    return ["-j%d" % run.get("jobs", 2), "--executor=%s" % e]


SCHEDS = ["random", "pct", "rr", "sticky"]


def gen_run(rng, execs=("j1", "thread", "process"), maxjobs=6, perturb=True):
    e = rng.choice(list(execs))
    run = {"exec": e, "seed": rng.next() % (1 << 31)}
    if e != "j1":
        run["jobs"] = rng.randint(2, maxjobs)
    if e == "thread":
        run["sched"] = rng.choice(SCHEDS)
        if run["sched"] == "pct":
            run["pct_depth"] = rng.randint(0, 3)
            run["pct_steps"] = rng.choice([50, 300, 2000])
    if e == "process" and perturb:
        run["sel_timeout"] = rng.choice([0, 30, 150])
        run["wait_lag"] = rng.choice([0, 100, 400])
    return run


def plan_of(run, extra=None):
    p = {"seed": run.get("seed", 1)}
    for k in ("sched", "pct_depth", "pct_steps", "sel_timeout", "wait_lag", "loadavg", "chunk", "crash_op", "crash_prefix", "crash_sig",
              "readdir_shuffle", "dt_unknown", "clock", "clock_step", "alloc", "max_steps", "die"):
        if k in run:
            p[k] = run[k]
    p["trace_sched"] = 1
    if extra:
        p.update(extra)
    return p


PROJECT_DEFS = ["", "", "-DCFG_A", "-DCFG_B", "-DCFG_A -DCFG_B", "-UCFG_A", "-DCFG_V=2", "-std=c99"]


def gen_project_mode(rng, units, p):
    """With probability p the units are handed to cppcheck through a generated compile_commands.json (--project=): the
    executors then walk their FileSettings list instead of the file list - separate code in all three executors and in the
    build-dir bookkeeping (files.txt records carry a configuration and a file-settings id). Optionally one unit is listed
    twice with different defines. Always draws the same number of values."""
    on = rng.chance(p)
    defs = {u: rng.choice(PROJECT_DEFS) for u in units}
    dup = rng.choice(units) if rng.chance(0.3) else None
    return {"defs": defs, "dup": dup} if on else None


def input_args(scn, units, tree_dir, wd, tag):
    """The input part of the command line: the units themselves, or --project=<generated compile database>."""
    pm = scn.get("project")
    if not pm:
        return list(units)
    import json
    db = []
    for u in units:
        db.append({"directory": tree_dir, "arguments": ["gcc"] + pm["defs"].get(u, "").split() + ["-c", u], "file": u})
        if pm.get("dup") == u:
            db.append({"directory": tree_dir, "arguments": ["gcc", "-DCFG_DUP", "-DCFG_B", "-c", u], "file": u})
    path = os.path.join(wd, tag + ".cdb.json")
    with open(path, "w") as f:
        json.dump(db, f)
    return ["--project=" + path]


def project_candidates(scn):
    import copy
    if scn.get("project"):
        c = copy.deepcopy(scn); c["project"] = None
        yield c
        if scn["project"].get("dup"):
            c = copy.deepcopy(scn); c["project"]["dup"] = None
            yield c


def not_meta(f):
    return f.id not in core.META_IDS


def is_wp(f):
    return f.id in core.WHOLE_PROGRAM_IDS


def crashed(r):
    """Did the cppcheck process itself die abnormally (signal, sanitizer, simulator abort)?"""
    if r.timed_out:
        return "timeout (real-time watchdog)"
    if r.sig:
        return "killed by signal %d" % r.sig
    if r.rc in (66, 77):
        return "sanitizer report (%s)" % (r.sanitizer_report() or "exit %d" % r.rc)
    if r.rc in (97, 98, 99):
        return "simulator abort rc=%d: %s" % (r.rc, "; ".join(l for l in r.trace if l.startswith("E ")))
    return None


K9_KIND = "extra-wp-same-finding-different-call-path"


def classify_diff(oa, ob, ref_all=None):
    """oa: only in subject, ob: only in reference -> coarse kind of disagreement."""
    if oa and not ob and ref_all is not None and all(k.id in core.WHOLE_PROGRAM_IDS for k, _ in oa):
        # known finding K9: the same whole-program finding (id, message, primary location) reported a second time with a
        # different call path, because a partially cached single-job run analyses the re-analysed units in memory as well
        prim = set((f.id, f.msg, f.locs[0][:3] if f.locs else None) for f in ref_all)
        if all((k.id, k.msg, k.locs[0][:3] if k.locs else None) in prim for k, _ in oa):
            return K9_KIND
    ids_a = sorted(set(k.id for k, _ in oa)); ids_b = sorted(set(k.id for k, _ in ob))
    wp = all(k.id in core.WHOLE_PROGRAM_IDS for k, _ in oa + ob)
    strip = lambda k: (k.id, k.severity, k.msg)
    if oa and ob and sorted(strip(k) for k, _ in oa) == sorted(strip(k) for k, _ in ob):
        kind = "stale-location"
    elif oa and ob:
        kind = "both"
    elif oa:
        kind = "extra"
    else:
        kind = "missing"
    um = all(k.id == "unmatchedSuppression" for k, _ in oa + ob)
    return kind + ("-wp" if wp else "") + ("-unmatchedSuppression" if um else "")


class PropBase:
    VARIANTS = ["plain"]
    LEVEL = "exploration"
    REAL_STUB = REAL_STUB
    ASSUMPTIONS = []

    def describe(self, scn):
        return scn.get("desc", "scenario")

    def candidates(self, scn):
        return iter(())


def exotic_tag(units):
    """File names containing the separator characters of cppcheck's own serialisation formats (';' in the suppression
    transfer, ':' in files.txt and CTU ids) are a separate, known class of defects: they get their own signature."""
    chars = sorted(set(ch for u in units for ch in u.split("/")[-1] if ch in ";:#"))
    if any(ord(ch) > 127 for u in units for ch in u):
        chars.append("non-ASCII")
    return " [file name contains %s]" % " and ".join("'%s'" % c for c in chars) if chars else ""


def crash_text(r):
    """Normalised reason of an abnormal end (exception text without the variable parts)."""
    import re
    for l in reversed(r.stderr.strip().split("\n")):
        if "what():" in l:
            t = l.split("what():", 1)[1].strip()
            t = re.sub(r"'[^']*'", "'..'", t)
            t = re.sub(r"\d+", "N", t)
            return " (" + t[:80] + ")"
    return ""


K8_SIG = "missing-staticFunction (only reported when the whole-program analysis runs from memory)"


def split_static_function(oa, ob):
    """Known finding K8: 'staticFunction' is only computed by the in-memory whole-program analysis. Its absence in a
    build-dir mode is reported under one constant signature; other differences of the same run are classified on their own.
    Returns (oa', ob', k8) where k8 is True iff staticFunction findings are missing on the subject side only."""
    sf_sub = [(f, c) for f, c in oa if f.id == "staticFunction"]
    sf_ref = [(f, c) for f, c in ob if f.id == "staticFunction"]
    if sf_ref and not sf_sub:
        return [x for x in oa if x[0].id != "staticFunction"], [x for x in ob if x[0].id != "staticFunction"], True
    return oa, ob, False
