# C15 - parallel execution reports exactly what a single job reports (DESIGN.md 6.1)
import sys

from .. import engine, gen
from ..core import Rng
from ..engine import Outcome
from .base import PropBase, gen_run, gen_project_mode
from .execsim import run_pair, compare_runs, exec_candidates, describe_exec, gen_cmdline_suppressions


class C15(PropBase):
    ID = "C15"
    MODULE = "c15"
    RULE = ("scenario = generated project (shared headers, inline and command-line suppressions, awkward file names, payloads above "
            "4KiB and 64KiB) x options; reference -j1; 2..5 subject runs under the thread scheduler (random/PCT/round-robin/sticky) or the "
            "process transport (seeded worker stepping, select subsets and timeouts, waitpid lag, load-average stalls); half the "
            "scenarios with a build dir (whole-program findings then part of the equality). No worker crash (C21). "
            "distinct_nontrivial = distinct (executor, jobs, trace hash) triples, i.e. distinct interleavings actually executed")
    ASSUMPTIONS = ["reference = same binary with -j1 in a fresh process",
                   "without a build dir whole-program findings and unmatchedSuppression reports naming whole-program ids are excluded on both sides (statement of C15)",
                   "file0 is not compared (which unit first reports a header finding is legitimately schedule-dependent)"]

    def count(self, tier):
        return 150 if tier == "quick" else 8000

    def generate(self, seed, tier, idx):
        rng = Rng(seed)
        proj = gen.gen_project(rng, corpus=0.2, n_units=rng.randint(1, 7), inline=0.3, weird_names=0.04, big=0.03, same_basename=0.08, max_atoms=4, utf8=0.15)
        opts = {"--enable": rng.choice(["--enable=style,warning,performance,portability", "--enable=all", "--enable=style,information",
                                        "--enable=warning,information", "--enable=information", ""])}
        if not opts["--enable"]:
            del opts["--enable"]
        if rng.chance(0.6):
            opts["--inline-suppr"] = "--inline-suppr"
        if rng.chance(0.2):
            opts["--inconclusive"] = "--inconclusive"
        if rng.chance(0.15):
            opts["-D"] = rng.choice(["-DCFG_A", "-DCFG_B"])
        subs = []
        for _ in range(rng.randint(2, 5) if tier == "thorough" else rng.randint(2, 3)):
            r = gen_run(rng, execs=("thread", "process"), maxjobs=6)
            if r["exec"] == "process" and rng.chance(0.2):
                r["loadavg"] = rng.choice([200, 600])
            subs.append(r)
        scn = {"tree": proj["tree"], "units": proj["units"], "langs": proj["langs"], "opts": opts,
               "suppr": gen_cmdline_suppressions(rng, proj["units"]), "bd": rng.chance(0.5),
               "exitcode": rng.choice([None, 1, 37]), "subjects": subs, "channel": "text" if rng.chance(0.3) else "xml"}
        if any(s.get("loadavg") for s in subs):
            scn["opts"]["-l"] = "-l 1"
        scn["project"] = gen_project_mode(rng, proj["units"], 0.2)
        scn["suppr_via"] = rng.choice(["cmdline", "cmdline", "cmdline", "list", "xml"])
        if rng.chance(0.15):
            # a critical error (the unit cannot be analysed), suppressed in one of the documented ways, with and without --safety:
            # in safety mode a suppressed critical error still decides the exit status
            u = rng.choice(proj["units"])
            chunk, eid = rng.choice([("void sx%d(void){ if ( }", "syntaxError"), ("#error stop %d", "preprocessorErrorDirective")])
            chunk = chunk % rng.randint(100, 999)
            how = rng.choice(["cmdline-file", "cmdline-file", "inline", "cmdline-global", "none"])
            if how == "inline":
                chunk = "// cppcheck-suppress %s\n%s" % (eid, chunk)
                scn["opts"]["--inline-suppr"] = "--inline-suppr"
            elif how != "none":
                sup = "--suppress=%s:%s" % (eid, u) if how == "cmdline-file" else "--suppress=%s" % eid
                if sup not in scn["suppr"]:
                    scn["suppr"].append(sup)
            scn["tree"][u] = scn["tree"][u] + [chunk]
            if rng.chance(0.7):
                scn["opts"]["--safety"] = "--safety"
        scn["nofail_cover"] = rng.choice([None, None, None, None, None, "all", "all", "but-one"])
        if scn["nofail_cover"] and scn["exitcode"] is None:
            scn["exitcode"] = 37
        return scn

    def execute(self, scn, wd):
        out = Outcome()
        ref, res = run_pair(scn, wd, out)
        compare_runs(scn, ref, res, out)
        for run, r in res:
            if run["exec"] == "process":
                for l in r.trace:
                    if l.startswith("M ") and " l" in l:
                        try:
                            ln = int(l.split(" ")[5][1:])
                        except (ValueError, IndexError):
                            continue
                        if ln > 65536:
                            out.probe("payload_above_64KiB")
                        elif ln > 4096:
                            out.probe("payload_above_4KiB")
                if any(" read w" in l and l.endswith(" eof") for l in r.trace):
                    out.probe("eof_seen")
        return out

    def candidates(self, scn):
        return exec_candidates(scn)

    def describe(self, scn):
        return describe_exec(scn)


PROP = C15()
if __name__ == "__main__":
    sys.exit(engine.main(PROP))
