# C16 - the thread executor is free of data races (DESIGN.md 6.2)
# ThreadSanitizer build of the real CLI under the seeded thread scheduler. The scheduler's handoff is
# invisible to TSan (uninstrumented runtime, raw futexes), so TSan's happens-before graph contains only
# the program's own synchronisation; the schedule search varies *which* accesses occur and in which order.
import copy
import os
import re
import sys

from .. import core, engine, gen
from ..core import Rng
from ..engine import Outcome
from .base import PropBase, STD, exec_args, gen_run, plan_of, crashed, gen_project_mode, input_args
from .execsim import gen_cmdline_suppressions, exec_candidates, describe_exec

FRAME = re.compile(r"#\d+ (\S+) .*?/((?:lib|cli|frontend)/[\w.]+):(\d+)")


def tsan_reports(stderr):
    """[(summary, key)] per ThreadSanitizer report; key = first two repo frames of the two access stacks."""
    reps = []
    blocks = stderr.split("WARNING: ThreadSanitizer:")[1:]
    for b in blocks:
        kind = b.split("\n", 1)[0].strip()
        frames = FRAME.findall(b)
        funcs = []
        for fn, path, line in frames:
            k = "%s@%s" % (fn.split("(")[0], path)
            if k not in funcs:
                funcs.append(k)
            if len(funcs) >= 3:
                break
        reps.append((kind, " | ".join(funcs)))
    return reps


class C16(PropBase):
    ID = "C16"
    MODULE = "c16"
    VARIANTS = ["tsan"]
    RULE = ("scenario = project x options chosen to touch every shared object of the thread executor (inline and global suppressions, "
            "duplicate findings across units sharing headers, --showtime=file|summary|top5, build dir written from worker threads, "
            "--plist-output, compile database with per-file settings) x -j2..8 --executor=thread under seeded schedules (random, PCT "
            "depth 0-3, round-robin, sticky); ThreadSanitizer build; any data-race report is a violation. distinct_nontrivial = "
            "distinct trace hashes (interleavings) among runs with at least 2 units")
    ASSUMPTIONS = ["clang 14 ThreadSanitizer; the runtime that parks and releases threads is not instrumented and uses raw futexes, so it "
                   "adds no happens-before edges", "preemption only at synchronisation operations, thread creation/join and build-dir file operations"]

    def count(self, tier):
        return 90 if tier == "quick" else 4000

    def generate(self, seed, tier, idx):
        rng = Rng(seed)
        proj = gen.gen_project(rng, corpus=0.35, n_units=rng.randint(2, 7), inline=0.4, headers=0.9, max_atoms=3, wp=rng.chance(0.3))
        opts = {"--enable": rng.choice(["--enable=style,warning,performance,portability", "--enable=all", "--enable=style,information", "--enable=information"]),
                "--inline-suppr": "--inline-suppr"}
        if rng.chance(0.5):
            opts["--showtime"] = rng.choice(["--showtime=file", "--showtime=summary", "--showtime=top5", "--showtime=file-total"])
        if rng.chance(0.2):
            opts["--library"] = rng.choice(["--library=posix", "--library=gnu"])
        if rng.chance(0.15):
            opts["-D"] = "-DCFG_A"
        if rng.chance(0.2):
            opts["--inconclusive"] = "--inconclusive"
        subs = []
        for _ in range(2):
            r = gen_run(rng, execs=("thread",), maxjobs=8)
            subs.append(r)
        scn = {"tree": proj["tree"], "units": proj["units"], "langs": proj["langs"], "opts": opts,
               "suppr": gen_cmdline_suppressions(rng, proj["units"]), "bd": rng.chance(0.4), "plist": rng.chance(0.15),
               "exitcode": None, "subjects": subs}
        scn["project"] = gen_project_mode(rng, proj["units"], 0.25)
        if rng.chance(0.2):
            scn["opts"]["--report-progress"] = "--report-progress=1"     # progress reports from every worker thread (stdout lock)
        if rng.chance(0.15):
            scn["opts"]["--debug-warnings"] = "--debug-warnings"
        return scn

    def execute(self, scn, wd):
        out = Outcome()
        tree_dir = os.path.join(wd, "tree")
        os.makedirs(tree_dir)
        core.write_tree(tree_dir, gen.join_tree(scn["tree"]))
        units = list(scn["units"])
        oargs = gen.flatten_opts(scn.get("opts", {})) + list(scn.get("suppr", []))
        for i, run in enumerate(scn["subjects"]):
            b, roots = [], []
            if scn.get("bd"):
                d = "bd%d" % i
                os.makedirs(os.path.join(wd, d))
                b, roots = ["--cppcheck-build-dir=../" + d], ["../" + d]
            if scn.get("plist"):
                os.makedirs(os.path.join(wd, "plist%d" % i))
                b = b + ["--plist-output=../plist%d" % i]
            std = [a for a in STD if a != "-q"] if "--report-progress" in scn.get("opts", {}) else STD
            r = core.run_sim("tsan", tree_dir, std + oargs + b + exec_args(run) + input_args(scn, units, tree_dir, wd, "sub%d" % i), plan=plan_of(run),
                             roots=roots, workdir=wd, tag="sub%d" % i, timeout=300)
            out.account(r)
            how = " ".join(exec_args(run)) + " sched=%s" % run.get("sched")
            reps = tsan_reports(r.stderr)
            if len(units) >= 2:
                out.states.append(r.trace_hash)
                out.nontrivial = True
            for kind, key in reps[:3]:
                out.violate("data-race", "%s: %s" % (kind.split("(")[0].strip(), key), [how] + [l for l in r.stderr.split("\n") if "ThreadSanitizer" in l or "#0" in l or "#1" in l][:10], ids=key)
            if not reps:
                c = crashed(r)
                if c:
                    out.violate("subject-crash", c.split(":")[0], [how, c] + r.stderr.strip().split("\n")[-5:], ids="crash")
        return out

    def candidates(self, scn):
        return exec_candidates(scn)

    def describe(self, scn):
        d = describe_exec(scn)
        d["plist"] = scn.get("plist")
        return d


PROP = C16()
if __name__ == "__main__":
    sys.exit(engine.main(PROP))
