# C17 - a file's findings do not depend on the other files in the run (DESIGN.md 6.3)
# The "schedule" here is the history of one long-lived analyzer object: check(f1), check(f2), ...
# Reference model: the stateless one - a fresh process per file.
import copy
import json
import os
import sys

from .. import core, engine, gen
from ..core import Rng
from ..engine import Outcome
from .base import PropBase, STD, exec_args, gen_run, plan_of, not_meta, crashed, exotic_tag, crash_text
from .execsim import is_wp_related

EARLY = ["#error stop here {n}", "#if 1\nint never{n};", "#include \"missing{n}.h\"\n#error after missing include"]


def keep(f):
    # C17 scenarios carry inline suppressions only, so an unmatchedSuppression report belongs to the unit (or header) holding
    # the comment and must not depend on the other files either
    return not_meta(f) and not is_wp_related(f) and f.id not in ("missingInclude", "missingIncludeSystem")


class C17(PropBase):
    ID = "C17"
    MODULE = "c17"
    RULE = ("scenario = project whose units share headers, same-named macros (one with cppcheck-suppress-macro), inline suppressions "
            "of all forms, units ending in the early-exit paths of the per-file analysis (#error, unterminated #if), optionally driven "
            "through a generated compile_commands.json with per-file defines; runs: every unit alone (fresh process, the stateless "
            "reference model), 2..4 permutations with -j1 (one analyzer object reused) and one run under the thread scheduler. "
            "distinct_nontrivial = distinct (permutation, set of units with findings) pairs")
    ASSUMPTIONS = ["whole-program findings, unmatchedSuppression, missingInclude* and checkersReport are outside the property and removed",
                   "header findings are compared as sets (which unit reports a shared-header finding first is legitimately order dependent)"]

    def count(self, tier):
        return 100 if tier == "quick" else 5000

    def generate(self, seed, tier, idx):
        rng = Rng(seed)
        proj = gen.gen_project(rng, corpus=0.25, n_units=rng.randint(2, 5), inline=0.35, headers=0.9, wp=rng.chance(0.3), cfg_blocks=0.4, max_atoms=3)
        tree, units, langs = proj["tree"], proj["units"], proj["langs"]
        n = 900
        # same-named macro in two units, suppressed by name in one of them
        cu = [u for u in units if langs[u] == "c"]
        if len(cu) >= 2 and rng.chance(0.5):
            a, b = rng.sample(cu, 2)
            sid = rng.choice(["zerodiv", "zerodiv", "*"])
            tree[a] = tree[a] + ["// cppcheck-suppress-macro %s\n#define DIVM(x) ((x)/0)\nint ma%d(int q){return DIVM(q);}" % (sid, n)]
            tree[b] = tree[b] + ["#define DIVM(x) ((x)/0)\nint mb%d(int q){return DIVM(q);}" % n]
        if rng.chance(0.35):
            u = rng.choice(units)
            tree[u] = tree[u] + [rng.choice(EARLY).format(n=n)]
        if rng.chance(0.3):
            # an inline suppression on code that no checked configuration compiles
            u = rng.choice(units)
            pos = rng.randint(1 if langs[u] == "cpp" else 0, len(tree[u]))
            tree[u] = tree[u][:pos] + ["#if 0\n// cppcheck-suppress zerodiv\nint dead%d(int y){return y/0;}\n#endif" % n] + tree[u][pos:]
        if rng.chance(0.3):
            u = rng.choice(units)
            tree[u] = ["// cppcheck-suppress-file %s" % rng.choice(["zerodiv", "unreadVariable", "nullPointer"])] + tree[u] if langs[u] == "c" else tree[u]
        opts = {"--enable": rng.choice(["--enable=style,warning,performance,portability", "--enable=style", "--enable=warning", "",
                                        "--enable=style,information", "--enable=information", "--enable=warning,information"]),
                "--inline-suppr": "--inline-suppr"}
        if not opts["--enable"]:
            del opts["--enable"]
        if rng.chance(0.2):
            del opts["--inline-suppr"]
        perms = []
        for _ in range(rng.randint(2, 4)):
            p = list(range(len(units)))
            rng.shuffle(p)
            if p not in perms:
                perms.append(p)
        scn = {"tree": tree, "units": units, "langs": langs, "opts": opts, "perms": perms,
               "thread": gen_run(rng, execs=("thread",), maxjobs=4) if rng.chance(0.6) else None,
               "project": None}
        if rng.chance(0.3):
            # per-file project settings
            scn["project"] = {u: rng.choice(["", "-DCFG_A", "-DCFG_B", "-DCFG_A -DCFG_B", "-UCFG_A"]) for u in units}
        return scn

    def _run(self, scn, wd, tree_dir, order, tag, run=None):
        oargs = gen.flatten_opts(scn.get("opts", {}))
        ex = exec_args(run) if run else ["-j1"]
        if scn.get("project"):
            db = [{"directory": tree_dir, "command": "gcc %s -c %s" % (scn["project"][u], u), "file": u} for u in order]
            dbp = os.path.join(wd, tag + ".json")
            with open(dbp, "w") as f:
                json.dump(db, f)
            args = STD + oargs + ex + ["--project=" + dbp]
        else:
            args = STD + oargs + ex + list(order)
        return core.run_sim("plain", tree_dir, args, plan=plan_of(run) if run else None, workdir=wd, tag=tag)

    @staticmethod
    def _norm(f, tree_dir):
        # with --project the paths are absolute: make them relative to the tree
        pre = tree_dir.rstrip("/") + "/"
        locs = tuple((l[0][len(pre):] if l[0].startswith(pre) else l[0],) + tuple(l[1:]) for l in f[6])
        return core.Finding(f[:6] + (locs, f[7], ""))

    @staticmethod
    def _macro_leak(scn, missing):
        """True iff every missing finding sits on a line that expands a macro whose name is suppressed by a
        cppcheck-suppress-macro comment somewhere in the project (known finding K6)."""
        import re
        files = gen.join_tree(scn["tree"])
        names = set()
        for text in files.values():
            for m in re.finditer(r"cppcheck-suppress-macro[^\n]*\n\s*#\s*define\s+(\w+)", text):
                names.add(m.group(1))
        if not names or not missing:
            return False
        for f in missing:
            fn, ln = f.locs[0][0], f.locs[0][1]
            lines = files.get(fn, "").split("\n")
            try:
                txt = lines[int(ln) - 1]
                prev = lines[int(ln) - 2] if int(ln) >= 2 else ""
            except (ValueError, IndexError):
                return False
            if f.id == "unmatchedSuppression" and ("cppcheck-suppress-macro" in txt or "cppcheck-suppress-macro" in prev):
                continue   # the report about the suppress-macro comment itself (it is "matched" by the other unit's finding)
            if not any(re.search(r"\b%s\b" % re.escape(n), txt) for n in names):
                return False
        return True

    def execute(self, scn, wd):
        out = Outcome()
        tree_dir = os.path.join(wd, "tree")
        os.makedirs(tree_dir)
        core.write_tree(tree_dir, gen.join_tree(scn["tree"]))
        units = list(scn["units"])
        uset = set(units)
        alone = {}
        for i, u in enumerate(units):
            r = self._run(scn, wd, tree_dir, [u], "alone%d" % i)
            if crashed(r) or not r.xml_ok:
                out.probe("reference_unusable")
                return out
            alone[u] = [self._norm(f, tree_dir) for f in r.findings if keep(f)]
        union_hdr = set(f for u in units for f in alone[u] if f.primary_file() not in uset)
        subjects = [(p, None) for p in scn["perms"]]
        if scn.get("thread"):
            subjects.append((scn["perms"][0], scn["thread"]))
        prev = None
        for si, (perm, run) in enumerate(subjects):
            order = [units[i] for i in perm]
            r = self._run(scn, wd, tree_dir, order, "tog%d" % si, run)
            out.account(r)
            how = ("thread " + " ".join(exec_args(run))) if run else "-j1"
            c = crashed(r)
            if c or not r.xml_ok:
                out.violate("subject-crash", "%s in a multi-file run%s" % ((c or "malformed output").split(":")[0], crash_text(r)),
                            ["order: %s (%s)" % (order, how), c or ""] + r.stderr.strip().split("\n")[-5:], ids="crash")
                continue
            tog = [self._norm(f, tree_dir) for f in r.findings if keep(f)]
            out.states.append("%s|%s|%s" % (",".join(map(str, perm)), "t" if run else "s", ",".join(sorted(set(f.primary_file() for f in tog)))))
            if tog:
                out.nontrivial = True
            # (a) per unit
            for u in units:
                ta = core.multiset([f for f in tog if f.primary_file() == u])
                aa = core.multiset([f for f in alone[u] if f.primary_file() == u])
                if ta != aa:
                    oa, ob = core.diff_multisets(ta, aa)
                    pos = order.index(u)
                    ids = ",".join(sorted(set(("+" if s == 0 else "-") + f.id for s, lst in enumerate((oa, ob)) for f, _ in lst)))
                    kind = "missing" if ob and not oa else "extra" if oa and not ob else "both"
                    if kind == "missing" and self._macro_leak(scn, [f for f, _ in ob]):
                        kind = "missing (all at expansions of a macro name that another unit suppresses with cppcheck-suppress-macro)"
                    sig = "%s findings of a unit when analysed %s other files (%s)" % (kind, "after" if pos > 0 else "before", "thread executor" if run else "single job")
                    if kind.startswith("missing (all at"):
                        sig = "findings at expansions of a macro name that another unit suppresses with cppcheck-suppress-macro are missing in a multi-file run"
                    out.violate("unit-depends-on-others", sig,
                                ["order: %s (%s); unit %s at position %d" % (order, how, u, pos)] + core.fmt_diff(oa, ob, "together", "alone"), ids=ids)
            # (b) headers as sets
            th = set(f for f in tog if f.primary_file() not in uset)
            if th != union_hdr:
                miss = sorted(union_hdr - th, key=repr)[:4]; extra = sorted(th - union_hdr, key=repr)[:4]
                ids = ",".join(sorted(set(["-" + f.id for f in miss] + ["+" + f.id for f in extra])))
                out.violate("header-findings-differ", "%s header findings in a multi-file run (%s)" % ("missing" if miss and not extra else "extra" if extra and not miss else "both", "thread executor" if run else "single job"),
                            ["order: %s (%s)" % (order, how)] + ["missing: " + f.short() for f in miss] + ["unexpected: " + f.short() for f in extra], ids=ids)
        return out

    def candidates(self, scn):
        if len(scn["perms"]) > 1 or scn.get("thread"):
            for p in scn["perms"]:
                c = copy.deepcopy(scn); c["perms"] = [p]; c["thread"] = None
                yield c
            if scn.get("thread"):
                c = copy.deepcopy(scn); c["perms"] = scn["perms"][:1]
                yield c
        if scn.get("project"):
            c = copy.deepcopy(scn); c["project"] = None
            yield c
        units = scn["units"]
        if len(units) > 2:
            for i, u in enumerate(units):
                c = copy.deepcopy(scn)
                c["units"] = [x for x in units if x != u]; c["tree"].pop(u, None)
                c["perms"] = [[j - (1 if j > i else 0) for j in p if j != i] for p in scn["perms"]]
                if c.get("project"):
                    c["project"].pop(u, None)
                yield c
        for p in sorted(scn["tree"]):
            ch = scn["tree"][p]
            if isinstance(ch, list):
                for i in range(len(ch)):
                    c = copy.deepcopy(scn); del c["tree"][p][i]
                    yield c
        for k in sorted(scn.get("opts", {})):
            c = copy.deepcopy(scn); del c["opts"][k]
            yield c

    def describe(self, scn):
        return {"units": scn["units"], "opts": gen.flatten_opts(scn.get("opts", {})), "orders": [[scn["units"][i] for i in p] for p in scn["perms"]],
                "thread_run": " ".join(exec_args(scn["thread"])) if scn.get("thread") else None, "compile_commands": scn.get("project")}


PROP = C17()
if __name__ == "__main__":
    sys.exit(engine.main(PROP))
