# C18 - incremental analysis is transparent across edit histories (DESIGN.md 6.4)
import sys

from .. import engine, gen
from ..core import Rng
from .base import PropBase, gen_run, gen_project_mode
from .history import run_history, history_candidates, describe_history
from ..engine import Outcome


class C18(PropBase):
    ID = "C18"
    MODULE = "c18"
    RULE = ("scenario = generated project + history Run,(Edit+,Run)x1..5 against one --cppcheck-build-dir, every run under a seeded "
            "executor/schedule; each run is compared with a fresh no-build-dir -j1 run of the same binary on the current tree. "
            "distinct_nontrivial counts distinct (run index, set of edit kinds since previous run, number of units re-analysed) "
            "signatures among runs whose reference reports at least one finding")
    ASSUMPTIONS = ["reference = same binary, -j1, no build dir, fresh process", "kill-free: no crash injected here (C20)",
                   "whole-program findings and unmatchedSuppression are part of the compared multiset; checkersReport and file0 are not"]

    def count(self, tier):
        return 160 if tier == "quick" else 6000

    def generate(self, seed, tier, idx):
        rng = Rng(seed)
        focus = rng.chance(0.2)   # header-sharing projects with small edits: duplicate filters meet cache hits
        supp = not focus and rng.chance(0.2)   # comment-only edits of inline suppressions with unmatchedSuppression reporting enabled
        if supp:
            proj = gen.gen_project(rng, n_units=rng.randint(1, 3), inline=0.3, max_atoms=3, headers=1.0, wp=rng.chance(0.2), hdr_inline=0.5)
        elif focus:
            proj = gen.gen_project(rng, n_units=rng.randint(2, 3), inline=0.1, max_atoms=2, headers=1.0, wp=rng.chance(0.3), cfg_blocks=0.1,
                                   hdr_inline=0.2, computed_inc=0.2, nested_hdr=0.4)
        else:
            proj = gen.gen_project(rng, n_units=rng.randint(1, 5), inline=0.2, same_basename=0.15, max_atoms=4, hdr_inline=0.15, computed_inc=0.15, nested_hdr=0.3)
        ekinds = ["token", "drop_include", "comment", "touch", "drop_include", "header", "inner_header", "inline_hdr"] if focus else gen.EDIT_KINDS + ["inline_hdr_nomatch", "inner_header"]
        if supp:
            ekinds = ["touch", "touch", "inline_nomatch", "inline_nomatch", "inline_remove", "inline_remove", "inline_add", "inline_hdr", "inline_hdr_nomatch", "comment", "token"]
        opts = {"--enable": rng.choice(["--enable=style,warning,performance,portability", "--enable=all", "--enable=style,information", ""])}
        if not opts["--enable"]:
            del opts["--enable"]
        if rng.chance(0.5):
            opts["--inline-suppr"] = "--inline-suppr"
        if supp:
            opts = {"--enable": rng.choice(["--enable=style,information", "--enable=information", "--enable=all"]), "--inline-suppr": "--inline-suppr"}
        tree, units, langs = proj["tree"], proj["units"], proj["langs"]
        hist = [{"run": gen_run(rng)}]
        cur_tree = dict(tree)
        for _ in range(rng.randint(1, 4)):
            for _e in range(rng.randint(1, 2) if rng.chance(0.85) else 0):
                ed = gen.gen_edit(rng, cur_tree, units, langs, kinds=ekinds)
                if ed is None:
                    continue
                desc, sett, units, langs = ed
                for p, c in sett.items():
                    if c is None:
                        cur_tree.pop(p, None)
                    else:
                        cur_tree[p] = c
                hist.append({"edit": {"desc": desc, "set": sett, "units": list(units)}})
            hist.append({"run": gen_run(rng)})
        scn = {"tree": tree, "units": proj["units"], "langs": proj["langs"], "opts": opts, "history": hist}
        scn["project"] = gen_project_mode(rng, proj["units"], 0.15)
        return scn

    def execute(self, scn, wd):
        return run_history(scn, wd, Outcome(), self.ID)

    def candidates(self, scn):
        return history_candidates(scn)

    def describe(self, scn):
        return describe_history(scn)


PROP = C18()
if __name__ == "__main__":
    sys.exit(engine.main(PROP))
