# C19 - incremental analysis is transparent across option changes (DESIGN.md 6.5)
import sys

from .. import engine, gen
from ..core import Rng
from .base import PropBase, gen_run, gen_project_mode, PROJECT_DEFS
from .history import run_history, history_candidates, describe_history
from ..engine import Outcome

OPT_ATOMS = ["plat", "shift", "posix", "posixleak", "alloca", "incdiv", "incast", "cstyle", "aiob", "zerodiv", "unread",
             "constparam", "ptrcast", "known", "nullred", "aiobcond", "uninit", "byvalue", "postfix", "member", "branches", "branches", "vfiter", "vfiter", "wchar2", "gnulib", "winlib", "c11assert", "cpp11assert", "override", "manycfg", "sysinc", "tstr", "tstr", "win64", "defval", "defval"]


# atoms whose findings depend on the option (tools/opt_sensitivity.py checks that every pair of pool values is told apart)
SENSITIVE = {
    "--platform": ["plat", "shift", "tstr", "win64", "wchar2", "winlib"],
    "--std": ["alloca", "c11assert", "cpp11assert", "override"],
    "--language": ["cstyle", "alloca", "c11assert", "byvalue"],
    "--library": ["posix", "posixleak", "gnulib", "winlib"],
    "-D": ["defval", "manycfg"], "-U": ["defval"], "-I": ["zerodiv"],
    "--inconclusive": ["incdiv", "incast"],
    "--max-configs": ["manycfg", "defval"],
    "--check-level": ["branches", "vfiter"],
    "--enable": ["unread", "nullred", "aiobcond", "ptrcast", "byvalue", "postfix", "sysinc", "nullred", "aiobcond"],   # style, warning, portability, performance, information
    "--suppress": ["zerodiv", "aiob", "unread"],
    "--inline-suppr": ["zerodiv", "aiob", "uninit"],
}


class C19(PropBase):
    ID = "C19"
    MODULE = "c19"
    RULE = ("scenario = generated project with option-sensitive atoms (platform-, std-, language-, library-, -D/-U/-I-, "
            "inconclusive-, max-configs-, severity-sensitive code) + history of 2..5 option sets, each followed by a run that "
            "shares one build dir; every run is compared with a fresh no-build-dir run with the same options. "
            "distinct_nontrivial counts distinct (run index, set of option keys changed since the previous run, units re-analysed) "
            "signatures")
    ASSUMPTIONS = ["reference = same binary, -j1, no build dir, fresh process, same options",
                   "files are fixed during a history; only options change"]

    def count(self, tier):
        return 190 if tier == "quick" else 6000

    def generate(self, seed, tier, idx):
        rng = Rng(seed)
        # focused scenario: one option is walked through all its values (every pair of values meets on one build dir), over a
        # project made of material sensitive to that option; otherwise a random walk over all options
        keys = sorted(gen.OPTION_POOL)
        focus = rng.choice(keys) if rng.chance(0.7) else None
        if focus:
            proj = gen.gen_project(rng, n_units=rng.randint(1, 3), inline=0.3 if focus == "--inline-suppr" else 0.1, atoms=SENSITIVE[focus] * 3 + OPT_ATOMS[:8],
                                   cfg_blocks=0.9 if focus in ("-D", "-U", "--max-configs") else 0.2, max_atoms=5, wp=rng.chance(0.2))
        else:
            proj = gen.gen_project(rng, n_units=rng.randint(1, 4), inline=0.2, atoms=OPT_ATOMS, cfg_blocks=0.6, max_atoms=6,
                                   wp=rng.chance(0.4))
        tree = proj["tree"]
        if focus:
            # every piece of material that tells two values of the walked option apart is present at least once
            ctr = gen.Counter(); ctr.n = 800
            for name in SENSITIVE[focus]:
                a = gen.ATOM_BY_NAME[name]
                us = [u for u in proj["units"] if gen.atom_ok(a, proj["langs"][u])]
                if us:
                    u = rng.choice(us)
                    tree[u] = tree[u] + [a[3].format(n=ctr.next())]
        # -I sensitive material: a header only found with -Iinc
        if rng.chance(0.5) or focus == "-I":
            tree["inc/onlyinc.h"] = ["static inline int oi(int y){return y/0;}", "#define ONLYINC 1"]
            tree["inc2/onlyinc.h"] = ["static inline void oi2(void){int *p=0;*p=1;}", "#define ONLYINC 2"]
            tree["inc/second.h"] = ["static inline int os(int y){return 7/(y-y);}"]     # only reachable through the second -I of "-Iinc2 -Iinc"
            u = rng.choice(proj["units"])
            tree[u] = ['#include "onlyinc.h"\n#include "second.h"', "#if defined(ONLYINC) && ONLYINC==1\nvoid fo(void){int q[2];q[2]=0;}\n#endif"] + tree[u]
            if proj["langs"][u] == "cpp":
                tree[u] = [tree[u][2]] + tree[u][:2] + tree[u][3:]
        base = gen.gen_option_set(rng, density=0.3)
        if "--enable" not in base and rng.chance(0.7):
            base["--enable"] = "--enable=style,warning,performance,portability"
        hist = [{"opts": base}, {"run": gen_run(rng)}]
        cur = dict(base)
        walk = []
        if focus:
            # a walk through the values in which consecutive runs meet as many different pairs of values as a short history
            # allows: a shuffled pass over all values, then a second partial pass in another order
            vals = list(gen.OPTION_POOL[focus])
            walk = rng.shuffle(list(vals))[:7]
            for v in rng.shuffle(list(vals)):
                if len(walk) >= 9:
                    break
                if v != walk[-1]:
                    walk.append(v)
        for step in range(len(walk) if focus else rng.randint(1, 4)):
            new = dict(cur)
            for k in ([focus] if focus else rng.sample(keys, rng.choice([1, 1, 1, 2, 3]))):
                v = walk[step] if focus else rng.choice(gen.OPTION_POOL[k])
                if v:
                    new[k] = v
                else:
                    new.pop(k, None)
            hist.append({"opts": new})
            hist.append({"run": gen_run(rng)})
            cur = new
        scn = {"tree": tree, "units": proj["units"], "langs": proj["langs"], "opts": {}, "history": hist}
        scn["project"] = gen_project_mode(rng, proj["units"], 0.2)
        if scn["project"]:
            # the per-file options of the compile database change too (same command line): an option change of that unit
            h2 = []
            for st in hist:
                if "run" in st and h2 and rng.chance(0.4):
                    pm = {"defs": dict(scn["project"]["defs"]), "dup": scn["project"]["dup"]}
                    pm["defs"][rng.choice(proj["units"])] = rng.choice(PROJECT_DEFS)
                    h2.append({"project": pm})
                h2.append(st)
            scn["history"] = h2
        return scn

    def execute(self, scn, wd):
        return run_history(scn, wd, Outcome(), self.ID)

    def candidates(self, scn):
        return history_candidates(scn)

    def describe(self, scn):
        return describe_history(scn)


PROP = C19()
if __name__ == "__main__":
    sys.exit(engine.main(PROP))
