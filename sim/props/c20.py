# C20 - an interrupted run never corrupts later incremental results (DESIGN.md 6.6)
# fault enumeration over the kill points of a victim run: every tracked build-dir op (open/truncate,
# each write piece, close, ...) with byte-prefix tears, under all three executors.
import copy
import os
import shutil
import sys

from .. import core, engine, gen
from ..core import Rng
from ..engine import Outcome
from .base import PropBase, STD, exec_args, gen_run, plan_of, not_meta, crashed, classify_diff, split_static_function, K8_SIG, K9_KIND, gen_project_mode, input_args, project_candidates
from .history import describe_history


def file_class(rel):
    b = rel.split("/")[-1]
    if b == "files.txt":
        return "files.txt"
    if b == "checkers.txt":
        return "checkers.txt"
    ext = b.rsplit(".", 1)[-1] if "." in b else ""
    if ext.startswith("a") and ext[1:].isdigit():
        return "*.aN"
    if ext.startswith("s") and ext[1:].isdigit():
        return "*.sN"
    return "other"


class C20(PropBase):
    ID = "C20"
    MODULE = "c20"
    LEVEL = "fault_enumeration"
    RULE = ("scenario = project + optional warm-up run + victim run killed at op k (k ranges over the numbered build-dir ops of the "
            "fault-free victim: open/truncate, every write piece (seeded chunk size 0=unsplit..4096), close; prefix in {0, 1 byte, "
            "interior, n-1, n}) + optional edit + complete recovery run compared with a fresh no-build-dir run. quick samples up to "
            "12 kill points per scenario, thorough enumerates all ops and adds a second kill during recovery. distinct_nontrivial "
            "counts distinct (op kind, file class, prefix class, victim executor, recovery executor) tuples actually fired")
    ASSUMPTIONS = ["crash model = the process (and all its workers) is killed: bytes handed to write(2) survive, buffered bytes are "
                   "lost, nothing is reordered; no disk errors or power loss (the property states a kill)",
                   "reference = same binary, -j1, no build dir, fresh process"]

    def count(self, tier):
        return 40 if tier == "quick" else 1200

    def generate(self, seed, tier, idx):
        rng = Rng(seed)
        proj = gen.gen_project(rng, n_units=rng.randint(1, 4), inline=0.2, max_atoms=3, same_basename=0.1, corpus=0.25)
        opts = {"--enable": rng.choice(["--enable=style,warning,performance,portability", "--enable=all", "--enable=style,information"])}
        if rng.chance(0.5):
            opts["--inline-suppr"] = "--inline-suppr"
        victim = gen_run(rng)
        victim["chunk"] = rng.choice([0, 0, 1, 7, 64, 300, 4096])
        scn = {"tree": proj["tree"], "units": proj["units"], "langs": proj["langs"], "opts": opts,
               "warmup": gen_run(rng) if rng.chance(0.5) else None,
               "pre_edit": None, "victim": victim, "edit": None, "recovery": gen_run(rng),
               "points": "all" if tier == "thorough" else [{"frac": rng.below(10000) / 10000.0, "prefix": rng.choice([0, 0, 1, 500, 999, 1000, rng.randint(1, 999)])} for _ in range(12)],
               "second_kill": None}
        tree = dict(proj["tree"])
        units, langs = list(proj["units"]), dict(proj["langs"])
        if scn["warmup"] and rng.chance(0.6):
            ed = gen.gen_edit(rng, tree, units, langs)
            if ed:
                desc, sett, units, langs = ed
                for p, c in sett.items():
                    if c is None:
                        tree.pop(p, None)
                    else:
                        tree[p] = c
                scn["pre_edit"] = {"desc": desc, "set": sett, "units": list(units)}
        if rng.chance(0.4):
            ed = gen.gen_edit(rng, tree, units, langs)
            if ed:
                desc, sett, units2, langs2 = ed
                scn["edit"] = {"desc": desc, "set": sett, "units": list(units2)}
        if tier == "thorough" and rng.chance(0.3):
            scn["second_kill"] = {"frac": rng.below(10000) / 10000.0, "prefix": rng.choice([0, 1, 500, 1000])}
        scn["project"] = gen_project_mode(rng, proj["units"], 0.15)
        # how the victim is interrupted: SIGKILL (with a byte-prefix tear of the op) or "kill <pid>" with a catchable signal
        scn["victim"]["crash_sig"] = rng.choice([9, 9, 9, 15, 2, 1])
        # a partial kill: with the process executor one worker is SIGKILLed at a message boundary (the OOM killer, a stray
        # kill) while the parent survives and finishes the run; the next complete run must still be right
        scn["victim_mode"] = "worker-death" if scn["victim"].get("exec") == "process" and rng.chance(0.5) else "kill"
        from .execsim import gen_cmdline_suppressions
        scn["suppr"] = gen_cmdline_suppressions(rng, proj["units"]) if rng.chance(0.5) else []
        if scn["victim_mode"] == "worker-death" and rng.chance(0.7):
            # put the fault where in-flight state exists: cache files that are large when the worker dies (library-test functions:
            # many entries), and end-of-run work of the parent on exactly those files (unmatched file-specific suppressions are
            # appended to the cache file of their file)
            used = set()
            for u in proj["units"]:
                prelude, picks = gen.corpus_chunks(rng, scn["langs"][u], rng.randint(8, 20), used)
                scn["tree"][u] = [prelude] + scn["tree"][u] + picks
                scn["suppr"].append("--suppress=neverReported%d:%s" % (len(scn["suppr"]), u))
            scn["opts"]["--enable"] = rng.choice(["--enable=style,information", "--enable=all"])
        return scn

    # ------------------------------------------------------------------
    def _apply_edit(self, tree_dir, e):
        core.write_tree(tree_dir, gen.join_tree({p: c for p, c in e["set"].items() if c is not None}))
        for p, c in e["set"].items():
            if c is None:
                fp = os.path.join(tree_dir, p)
                if os.path.exists(fp):
                    os.unlink(fp)

    def execute(self, scn, wd):
        out = Outcome()
        tree_dir = os.path.join(wd, "tree")
        os.makedirs(tree_dir)
        core.write_tree(tree_dir, gen.join_tree(scn["tree"]))
        units = list(scn["units"])
        oargs = gen.flatten_opts(scn.get("opts", {})) + list(scn.get("suppr", []))
        base = os.path.join(wd, "bd_base")
        os.makedirs(base)

        strip = tree_dir if scn.get("project") else None

        def args_for(run, bd, us):
            return STD + oargs + ["--cppcheck-build-dir=../" + bd] + exec_args(run) + input_args(scn, us, tree_dir, wd, "cdb")

        if scn.get("warmup"):
            r = core.run_sim("plain", tree_dir, args_for(scn["warmup"], "bd_base", units), plan=plan_of(scn["warmup"]),
                             roots=["../bd_base"], workdir=wd, tag="warm")
            out.account(r)
            if crashed(r):
                out.violate("subject-crash", "warm-up run: " + crashed(r).split(":")[0], [crashed(r)] + r.stderr.strip().split("\n")[-5:])
                return out
        if scn.get("pre_edit"):
            self._apply_edit(tree_dir, scn["pre_edit"])
            units = list(scn["pre_edit"]["units"])
        victim = scn["victim"]
        # fault-free victim on a copy: learn the op list
        shutil.copytree(base, os.path.join(wd, "bd_dry"))
        dry = core.run_sim("plain", tree_dir, args_for(victim, "bd_dry", units), plan=plan_of(victim), roots=["../bd_dry"],
                           workdir=wd, tag="dry")
        out.account(dry)
        if crashed(dry):
            out.violate("subject-crash", "fault-free victim: " + crashed(dry).split(":")[0], [crashed(dry)] + dry.stderr.strip().split("\n")[-5:])
            return out
        ops = dry.ops()
        K = len(ops)
        if K == 0:
            out.error = "victim run performed no tracked op"
            return out
        pts = scn["points"]
        if pts == "all":
            pts = []
            for k in range(1, K + 1):
                ln = int(ops[k - 1][6]) if len(ops[k - 1]) > 6 else 0
                prefs = [0] if ln == 0 else [0, 1000] if ln == 1 else [0, 1, 500, 999, 1000]
                # one prefix per op in rotation keeps the enumeration linear; every op is hit at least once
                pts.append({"k": k, "prefix": prefs[k % len(prefs)]})
                if ln > 1 and k % 3 == 0:
                    pts.append({"k": k, "prefix": prefs[(k + 2) % len(prefs)]})
        plan_pts = []
        seen = set()
        # stratified sampling: checkers.txt alone accounts for most ops, so pick the file class first
        by_cls = {}
        for o in ops:
            by_cls.setdefault(file_class(o[5]), []).append(int(o[2]))
        cls_names = sorted(by_cls)
        for p in pts:
            if "k" in p:
                k = p["k"]
            else:
                lst = by_cls[cls_names[int(p["frac"] * 7919) % len(cls_names)]]
                k = lst[int(p["frac"] * len(lst)) % len(lst)]
            key = (k, p["prefix"])
            if key in seen or k > K:
                continue
            seen.add(key)
            plan_pts.append((k, p["prefix"]))
        # phase 1: victims
        victims = []
        if scn.get("victim_mode") == "worker-death":
            from .c21 import worker_messages
            tm = worker_messages(dry)
            dpts = []
            for p in (scn["points"] if isinstance(scn["points"], list) else [{"frac": x / 16.0} for x in range(16)]):
                if not tm:
                    break
                ws = sorted(tm)
                w = ws[int(p.get("frac", 0) * 7919) % len(ws)]
                m = int(p.get("frac", 0) * 104729) % (len(tm[w]) + 1)
                if (w, m) not in dpts:
                    dpts.append((w, m))
            for i, (w, m) in enumerate(dpts):
                bd = "bd_k%d" % i
                shutil.copytree(base, os.path.join(wd, bd))
                v = dict(victim); v.pop("crash_sig", None)
                v["die"] = [{"worker": w, "msg": m, "off": 0, "how": "sig", "arg": 9}]
                r = core.run_sim("plain", tree_dir, args_for(v, bd, units), plan=plan_of(v), roots=["../" + bd], workdir=wd, tag="vic%d" % i, strip=strip)
                out.account(r)
                if not any(l.startswith("X ") and " die w" in l for l in r.trace):
                    out.probe("kill_point_not_reached")
                    continue
                c = crashed(r)
                if c:
                    out.probe("parent_did_not_survive_the_worker_death")    # C21's business; the build dir is still judged below
                mt = tm[w][m][0] if m < len(tm[w]) else "end"
                victims.append((i, bd, m, 0, "worker-death", "before message %s (type %s)" % (m, mt), "SIGKILL of one worker", 0))
            plan_pts = []
        for i, (k, pre) in enumerate(plan_pts):
            bd = "bd_k%d" % i
            shutil.copytree(base, os.path.join(wd, bd))
            v = dict(victim); v["crash_op"] = k; v["crash_prefix"] = pre
            r = core.run_sim("plain", tree_dir, args_for(v, bd, units), plan=plan_of(v), roots=["../" + bd], workdir=wd, tag="vic%d" % i)
            out.account(r)
            fired = [l for l in r.trace if l.startswith("X ") and " crash " in l]
            if not fired:
                out.probe("kill_point_not_reached")
                continue
            handled = " handled" in fired[0] or " ignored" in fired[0]
            if handled:
                out.probe("interrupt_signal_handled_by_program")   # the program caught the signal and went on (graceful shutdown)
            elif r.sig != 9:
                out.error = "crash injected at op %d but process ended rc=%s sig=%s" % (k, r.rc, r.sig)
                return out
            opl = [o for o in r.ops() if int(o[2]) == k]
            okind, orel, olen = (opl[0][4], opl[0][5], int(opl[0][6])) if opl else ("?", "?", 0)
            pcls = "n/a" if olen == 0 else "0" if pre == 0 else "full" if pre >= 1000 else "interior"
            if victim.get("crash_sig", 9) != 9:
                pcls = "signal %d%s" % (victim["crash_sig"], " (handled by the program)" if handled else "")
            # cache files that are complete on disk at the kill point (the kill lands *before* op k: at a close op every byte
            # of that file, including the closing tag, has already been written)
            closed = sum(1 for o in r.ops() if int(o[2]) <= k and o[4] == "close" and file_class(o[5]) == "*.aN")
            victims.append((i, bd, k, pre, okind, file_class(orel), pcls, closed))
        # phase 2: edit
        if scn.get("edit"):
            self._apply_edit(tree_dir, scn["edit"])
            units = list(scn["edit"]["units"])
        ref = core.run_sim("plain", tree_dir, STD + oargs + ["-j1"] + input_args(scn, units, tree_dir, wd, "cdb"), plan=None, tag="ref", strip=strip)
        if crashed(ref) or not ref.xml_ok:
            out.probe("reference_unusable")
            return out
        mr = core.multiset(ref.findings, not_meta)
        if mr:
            out.nontrivial = True
        rec = scn["recovery"]
        for (i, bd, k, pre, okind, fcls, pcls, closed) in victims:
            if scn.get("second_kill"):
                # kill the recovery run too, then run again
                sk = scn["second_kill"]
                d2 = dict(rec); d2["crash_op"] = 1 + int(sk["frac"] * max(1, K)); d2["crash_prefix"] = sk["prefix"]
                r2 = core.run_sim("plain", tree_dir, args_for(d2, bd, units), plan=plan_of(d2), roots=["../" + bd], workdir=wd, tag="rk%d" % i)
                out.account(r2)
                if any(l.startswith("X ") and " crash " in l for l in r2.trace):
                    out.probe("second_kill_fired")
            r = core.run_sim("plain", tree_dir, args_for(rec, bd, units), plan=plan_of(rec), roots=["../" + bd], workdir=wd, tag="rec%d" % i, strip=strip)
            out.account(r)
            out.states.append("%s|%s|%s|%s|%s" % (okind, fcls, pcls, victim.get("exec"), rec.get("exec")))
            where = "kill at %s of %s (prefix %s)" % (okind, fcls, pcls)
            c = crashed(r)
            if c:
                out.violate("recovery-crash", "%s after %s" % (c.split(":")[0], where),
                            ["recovery run after kill at op %d (%s) of victim %s: %s" % (k, where, " ".join(exec_args(victim)), c)] + r.stderr.strip().split("\n")[-6:],
                            ids=c.split(":")[0])
                continue
            ms = core.multiset(r.findings, not_meta)
            if ms != mr or not r.xml_ok:
                oa, ob = core.diff_multisets(ms, mr)
                oa, ob, k8 = split_static_function(oa, ob)
                if k8:
                    out.violate("findings-differ", K8_SIG, ["recovery run with build dir vs fresh run: staticFunction findings absent"], ids="-staticFunction")
                if not (oa or ob) and r.xml_ok:
                    continue
                kind = classify_diff(oa, ob, list(mr)) if r.xml_ok else "malformed-output"
                ids = ",".join(sorted(set(("+" if side == 0 else "-") + f.id for side, lst in enumerate((oa, ob)) for f, _ in lst)))
                det = ["recovery run (%s) after victim (%s, chunk=%s) was killed at op %d/%d: %s" % (
                    " ".join(exec_args(rec)), " ".join(exec_args(victim)), victim.get("chunk"), k, K, where),
                    "edit between: %s" % (scn["edit"]["desc"] if scn.get("edit") else "none")] + core.fmt_diff(oa, ob, "after-kill", "fresh")
                if kind == K9_KIND and rec.get("exec", "j1") == "j1":   # K9 needs the single-job recovery run (in-memory + build-dir analysis)
                    sig = K9_KIND + " after a killed run"
                elif kind == "extra-unmatchedSuppression" and okind == "worker-death":
                    # known finding K15, see known_findings.json
                    sig = "a false unmatchedSuppression report for the file of a dead worker is written to that file's (valid) cache entry and replayed by later runs"
                elif kind == "extra-unmatchedSuppression" and any(x.startswith("--suppress=unmatchedSuppression") for x in scn.get("suppr", [])):
                    # known finding K14, see known_findings.json
                    sig = "unmatchedSuppression reports that a suppression of unmatchedSuppression hides in a fresh run reappear when findings are replayed from the cache"
                elif kind == "missing-unmatchedSuppression" and closed > 0:
                    # one shape, wherever the kill lands: see known_findings.json
                    sig = "missing-unmatchedSuppression after kill once a unit's cache file was complete"
                else:
                    sig = "%s after %s" % (kind, where)
                out.violate("findings-differ", sig, det, ids=ids)
        return out

    def candidates(self, scn):
        # shrink: fewer points first (keep one), then drop warmup/edits, units, chunks
        pts = scn["points"]
        if isinstance(pts, list) and len(pts) > 1:
            for p in pts:
                c = copy.deepcopy(scn); c["points"] = [p]
                yield c
        for c in project_candidates(scn):
            yield c
        for i in range(len(scn.get("suppr", []))):
            c = copy.deepcopy(scn); del c["suppr"][i]
            yield c
        for key in ("warmup", "pre_edit", "edit", "second_kill"):
            if scn.get(key):
                c = copy.deepcopy(scn); c[key] = None
                if key == "warmup":
                    c["pre_edit"] = None
                yield c
        for key in ("victim", "recovery"):
            r = scn[key]
            if r.get("exec") != "j1":
                c = copy.deepcopy(scn); keep = {k: v for k, v in r.items() if k in ("seed", "chunk", "crash_sig")}; keep["exec"] = "j1"
                c[key] = keep
                yield c
        if len(scn["units"]) > 1 and not scn.get("edit") and not scn.get("pre_edit"):
            for u in scn["units"]:
                c = copy.deepcopy(scn); c["units"] = [x for x in c["units"] if x != u]; c["tree"].pop(u, None)
                yield c
        for p in sorted(scn["tree"]):
            ch = scn["tree"][p]
            if isinstance(ch, list):
                for i in range(len(ch)):
                    c = copy.deepcopy(scn); del c["tree"][p][i]
                    yield c
        for k in sorted(scn.get("opts", {})):
            c = copy.deepcopy(scn); del c["opts"][k]
            yield c

    def describe(self, scn):
        return {"units": scn["units"], "opts": gen.flatten_opts(scn.get("opts", {})),
                "warmup": " ".join(exec_args(scn["warmup"])) if scn.get("warmup") else None,
                "pre_edit": scn["pre_edit"]["desc"] if scn.get("pre_edit") else None,
                "victim": " ".join(exec_args(scn["victim"])) + " chunk=%s interrupted by signal %s" % (scn["victim"].get("chunk"), scn["victim"].get("crash_sig", 9)),
                "kill_points": scn["points"] if scn["points"] == "all" else len(scn["points"]),
                "edit": scn["edit"]["desc"] if scn.get("edit") else None, "victim_mode": scn.get("victim_mode", "kill"), "suppressions": scn.get("suppr"),
                "recovery": " ".join(exec_args(scn["recovery"])), "second_kill": scn.get("second_kill")}


PROP = C20()
if __name__ == "__main__":
    sys.exit(engine.main(PROP))
