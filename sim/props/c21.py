# C21 - a crashing worker process is contained (DESIGN.md 6.7)
# fault enumeration over worker death points: for every worker, every chunk boundary of its message stream
# (before the type byte, between type and length, between length and payload, inside large payloads, after a
# message, after CHILD_END) x manner of death (signals, _exit codes), single and multiple victims.
import copy
import os
import sys

from .. import core, engine, gen
from ..core import Rng
from ..engine import Outcome
from .base import PropBase, STD, exec_args, gen_run, plan_of, not_meta, crashed, crash_text, gen_project_mode, input_args, project_candidates

MANNERS = [("sig", 11), ("sig", 6), ("sig", 9), ("exit", 1), ("exit", 3), ("exit", 255), ("sig", 8), ("sig", 15)]


def unescape(s):
    """Inverse of the trace's percent-escaping (everything outside 33..126 and '%' itself is %xx)."""
    out = bytearray()
    i = 0
    while i < len(s):
        if s[i] == "%":
            out.append(int(s[i + 1:i + 3], 16)); i += 3
        else:
            out.append(ord(s[i])); i += 1
    return bytes(out)


def parse_payload(buf):
    """ErrorMessage::serialize format -> (id, severity, msg, (file, line, col) of the primary location)."""
    pos = 0
    fields = []

    def take():
        nonlocal pos
        sp = buf.index(b" ", pos)
        n = int(buf[pos:sp])
        s = buf[sp + 1:sp + 1 + n]
        pos = sp + 1 + n
        return s
    for _ in range(10):
        fields.append(take())
    sp = buf.index(b" ", pos)
    nst = int(buf[pos:sp]); pos = sp + 1
    frames = []
    for _ in range(nst):
        fr = take().split(b"\t")
        frames.append(fr)
    loc = ("", "", "")
    if frames:
        fr = frames[-1]   # the call stack is serialised front to back; the primary location is the last frame
        loc = (fr[2].decode("utf-8", "replace"), fr[0].decode(), fr[1].decode())
    return (fields[0].decode("utf-8", "replace"), fields[1].decode(), fields[7].decode("utf-8", "replace"), loc)


def worker_messages(r):
    """{worker: [(type, len, payload_bytes)]} of completely delivered messages, from the transport trace."""
    d = {}
    for l in r.trace:
        if l.startswith("M "):
            p = l.split(" ", 6)
            w = int(p[2][1:]); t = p[4][1:]; ln = int(p[5][1:])
            payload = unescape(p[6]) if len(p) > 6 else b""
            d.setdefault(w, []).append((t, ln, payload))
    return d


def finding_key(f):
    # XML lists locations primary first
    loc = f.locs[0][:3] if f.locs else ("", "", "")
    return (f.id, f.severity, f.msg, loc)


class C21(PropBase):
    ID = "C21"
    MODULE = "c21"
    LEVEL = "fault_enumeration"
    RULE = ("scenario = project analysed with the process executor (-j2..6, --error-exitcode=E); the fault-free twin (same schedule "
            "seed) yields every worker's message stream from the transport trace; then worker-death verdicts are injected at the "
            "chunk boundaries of those streams: offset 0 (before type byte), 1 (between type and length), 5 (before payload), every "
            "4096 bytes inside a payload, after a message, after CHILD_END; manner = SIGSEGV/SIGABRT/SIGKILL/SIGFPE/SIGTERM or "
            "_exit(1,3,255); quick samples ~10 single-victim and ~3 multi-victim faults per scenario, thorough enumerates every "
            "boundary of every worker once plus sampled combinations. distinct_nontrivial = distinct (boundary class, message type, "
            "manner, number of victims) tuples actually fired")
    ASSUMPTIONS = ["pipe model: writes of at most 4096 bytes are atomic, so a worker can only die at the write boundaries of its message "
                   "stream and at 4096-byte chunk boundaries inside larger writes",
                   "prediction oracle: the faulty run must report exactly the completely delivered REPORT_ERROR payloads (as filtered by "
                   "the fault-free twin) plus one cppcheckError per victim; unmatchedSuppression reports are not predicted and not compared"]

    def count(self, tier):
        return 60 if tier == "quick" else 1500

    def generate(self, seed, tier, idx):
        rng = Rng(seed)
        if rng.chance(0.25):
            # finding-free project: the internal error is then the only thing that can produce the error exit status
            proj = gen.gen_project(rng, n_units=rng.randint(2, 4), atoms="none", headers=False, wp=False, cfg_blocks=0, inline=0)
        else:
            proj = gen.gen_project(rng, corpus=0.2, n_units=rng.randint(2, 6), inline=0.2, big=0.08, max_atoms=3, wp=rng.chance(0.3))
        opts = {"--enable": rng.choice(["--enable=style,warning,performance,portability", "--enable=style", "--enable=warning", "--enable=style,information"])}
        if rng.chance(0.5):
            opts["--inline-suppr"] = "--inline-suppr"
        run = gen_run(rng, execs=("process",), maxjobs=6)
        scn = {"tree": proj["tree"], "units": proj["units"], "langs": proj["langs"], "opts": opts,
               "exitcode": rng.choice([1, 5, 37]), "run": run,
               "faults": "all" if tier == "thorough" else {"single": 10, "multi": 3}, "fseed": rng.next() % (1 << 30)}
        scn["project"] = gen_project_mode(rng, proj["units"], 0.25)
        scn["bd"] = rng.chance(0.25)      # every run gets a fresh build dir: cache files are written by the dying workers
        from .execsim import gen_cmdline_suppressions
        scn["suppr"] = gen_cmdline_suppressions(rng, proj["units"]) if rng.chance(0.5) else []
        if scn["suppr"] and rng.chance(0.5):
            scn["opts"]["--enable"] = rng.choice(["--enable=style,information", "--enable=warning,information", "--enable=all"])
        return scn

    def _boundaries(self, msgs):
        b = []
        for w, ml in sorted(msgs.items()):
            for m, (t, ln, _p) in enumerate(ml):
                b.append((w, m, 0, "before-type", t))
                b.append((w, m, 1, "type|len", t))
                if ln > 0:
                    b.append((w, m, 5, "len|payload", t))
                for off in range(5 + 4096, 5 + ln, 4096):
                    b.append((w, m, off, "inside-payload", t))
            if ml:
                b.append((w, len(ml), 0, "after-CHILD_END", "end"))
        return b

    def execute(self, scn, wd):
        out = Outcome()
        tree_dir = os.path.join(wd, "tree")
        os.makedirs(tree_dir)
        core.write_tree(tree_dir, gen.join_tree(scn["tree"]))
        units = list(scn["units"])
        pm = scn.get("project")
        if pm:   # one worker per compile-database entry, in that order
            units = [x for u in units for x in ([u, u] if pm.get("dup") == u else [u])]
        E = scn["exitcode"]
        strip = tree_dir if pm else None

        def args_for(tag):
            b, roots = [], []
            if scn.get("bd"):
                os.makedirs(os.path.join(wd, "bd_" + tag))
                b, roots = ["--cppcheck-build-dir=../bd_" + tag], ["../bd_" + tag]
            return STD + gen.flatten_opts(scn.get("opts", {})) + list(scn.get("suppr", [])) + ["--error-exitcode=%d" % E] + b + exec_args(scn["run"]) + \
                input_args(scn, scn["units"], tree_dir, wd, "cdb"), roots
        args, roots = args_for("twin")
        twin = core.run_sim("plain", tree_dir, args, plan=plan_of(scn["run"]), roots=roots, workdir=wd, tag="twin", strip=strip)
        out.account(twin)
        if crashed(twin) or not twin.xml_ok:
            out.violate("subject-crash", "fault-free twin: %s" % (crashed(twin) or "malformed output"), [crashed(twin) or ""] + twin.stderr.strip().split("\n")[-5:])
            return out
        tm = worker_messages(twin)
        if len(tm) != len(units):
            out.error = "twin trace shows %d workers for %d units" % (len(tm), len(units))
            return out
        twin_keys = set(finding_key(f) for f in twin.findings)

        def payload_keys(msgs):
            # every completely delivered message that parses as a serialised finding (whatever its type byte is)
            ks = set()
            for w, ml in msgs.items():
                for t, ln, payload in ml:
                    try:
                        k = parse_payload(payload)
                    except (ValueError, IndexError):
                        continue
                    if strip and k[3][0].startswith(strip.rstrip("/") + "/"):
                        k = k[:3] + ((k[3][0][len(strip.rstrip("/")) + 1:],) + k[3][1:],)
                    ks.add(k)
            return ks
        # the prediction oracle rests on reading the transport: it must explain the fault-free run completely, else the
        # machinery does not understand the protocol (any more) and says so instead of judging
        unexplained = [k for k in (finding_key(f) for f in twin.findings if not_meta(f) and f.id not in ("cppcheckError", "unmatchedSuppression", "internalError") and f.id not in core.WHOLE_PROGRAM_IDS)
                       if k not in payload_keys(tm)]
        if unexplained:
            out.error = "the transport trace of the fault-free run does not explain its findings (protocol changed?): %s" % (unexplained[:2],)
            return out
        bounds = self._boundaries(tm)
        rng = Rng(scn["fseed"])
        plans = []
        if scn["faults"] == "all":
            for i, b in enumerate(bounds):
                plans.append([(b, MANNERS[i % len(MANNERS)])])
            for _ in range(max(4, len(bounds) // 8)):
                k = rng.randint(2, min(len(tm), 4))
                ws = rng.sample(sorted(tm), k)
                plans.append([(rng.choice([b for b in bounds if b[0] == w]), rng.choice(MANNERS)) for w in ws])
        elif isinstance(scn["faults"], dict):
            for _ in range(scn["faults"]["single"]):
                plans.append([(rng.choice(bounds), rng.choice(MANNERS))])
            for _ in range(scn["faults"]["multi"]):
                k = rng.randint(2, min(len(tm), 4))
                ws = rng.sample(sorted(tm), k)
                plans.append([(rng.choice([b for b in bounds if b[0] == w]), rng.choice(MANNERS)) for w in ws])
        else:
            plans = [[(tuple(b), tuple(m)) for b, m in pl] for pl in scn["faults"]]   # explicit (replay / shrunk)
        if scn.get("only") is not None:
            plans = plans[scn["only"]:scn["only"] + 1]
        for pi, pl in enumerate(plans):
            run = dict(scn["run"])
            run["die"] = [{"worker": b[0], "msg": b[1], "off": b[2], "how": m[0], "arg": m[1]} for b, m in pl]
            run["max_steps"] = 20000 + 50 * sum(len(v) for v in tm.values())
            args, roots = args_for("f%d" % pi)
            r = core.run_sim("plain", tree_dir, args, plan=plan_of(run), roots=roots, workdir=wd, tag="f%d" % pi, strip=strip)
            out.account(r)
            fired = [l for l in r.trace if l.startswith("X ") and " die w" in l]
            victims = sorted(set(int(l.split(" die w")[1].split(" ")[0]) for l in fired))
            desc = "; ".join("w%d(%s) dies %s of msg %d (type %s) by %s %d" % (b[0], units[b[0]], b[3], b[1], b[4], m[0], m[1]) for b, m in pl)
            tag = "+".join(sorted(set(b[3] for b, m in pl)))   # boundary classes hit (manner and count are in the detail)
            if not victims:
                out.probe("fault_not_reached")
                continue
            out.states.append("%s|%s|%d" % (tag, "+".join(sorted(set(str(b[4]) for b, m in pl))), len(victims)))
            expl = [(b, m) for b, m in pl]
            # (1) termination: no hang (step cap), no signal, no exit from an abort path
            c = crashed(r)
            if c:
                out.violate("parent-not-contained", "parent %s%s when %s" % (c.split(":")[0], crash_text(r), tag), [desc, c] + r.stderr.strip().split("\n")[-5:],
                            ids=tag)
                continue
            if "#### ThreadExecutor" in r.stderr or not r.xml_ok:
                why = [l for l in r.stderr.split("\n") if "####" in l][:2]
                out.violate("parent-abort", "parent aborts (exit %d) when worker dies %s" % (r.rc, tag), [desc] + why, ids=tag)
                continue
            # (2) exit status
            if r.rc != E:
                out.violate("exit-status", "exit %d instead of --error-exitcode when worker dies %s" % (r.rc, tag), [desc, "exit=%d expected %d" % (r.rc, E)], ids=tag)
            # (3) internal error naming each victim's file
            ce = [f for f in r.findings if f.id == "cppcheckError"]
            for v in victims:
                # (through a compile database the worker is named "<file> <configuration>")
                if not any(f.locs and (f.locs[0][0] == units[v] or f.locs[0][0].startswith(units[v] + " ")) for f in ce):
                    out.violate("no-internal-error", "no cppcheckError for the victim's file when worker dies %s" % tag,
                                [desc, "cppcheckError findings: %s" % [f.short() for f in ce]], ids=tag)
            # (4) prediction from the transport trace
            fm = worker_messages(r)
            bad = None
            for w in sorted(tm):
                a, b2 = tm[w], fm.get(w, [])
                if w in victims:
                    if a[:len(b2)] != b2:
                        bad = "victim w%d delivered messages that are not a prefix of its fault-free stream" % w
                elif a != b2:
                    bad = "surviving worker w%d (%s) delivered %d messages, fault-free %d" % (w, units[w], len(b2), len(a))
            if bad:
                out.violate("transport-differs", "survivor stream differs when worker dies %s" % tag, [desc, bad], ids=tag)
                continue
            delivered = payload_keys(fm)
            expected = set(k for k in delivered if k in twin_keys)
            got = set(finding_key(f) for f in r.findings if not_meta(f) and f.id not in ("cppcheckError", "unmatchedSuppression") and f.id not in core.WHOLE_PROGRAM_IDS)
            exp2 = set(k for k in expected if k[0] not in core.WHOLE_PROGRAM_IDS and k[0] != "unmatchedSuppression")
            if scn.get("bd"):
                # the dying worker leaves a torn cache file; the parent's complaint about it concerns the victim, not the others
                got = set(k for k in got if not (k[0] == "internalError" and k[2].startswith("failed to load '")))
            if got != exp2:
                miss = sorted(exp2 - got)[:4]; extra = sorted(got - exp2)[:4]
                out.violate("findings-not-contained", "%s when worker dies %s" % ("missing" if miss and not extra else "extra" if extra and not miss else "both", tag),
                            [desc] + ["missing: %s" % (m,) for m in miss] + ["unexpected: %s" % (e,) for e in extra], ids=tag)
            if exp2:
                out.nontrivial = True
        return out

    def candidates(self, scn):
        if scn.get("only") is None:
            n = 40 if scn["faults"] == "all" else scn["faults"]["single"] + scn["faults"]["multi"]
            for i in range(n):
                c = copy.deepcopy(scn); c["only"] = i
                yield c
            return
        for c in project_candidates(scn):
            yield c
        for i in range(len(scn.get("suppr", []))):
            c = copy.deepcopy(scn); del c["suppr"][i]
            yield c
        if scn.get("bd"):
            c = copy.deepcopy(scn); c["bd"] = False
            yield c
        for p in sorted(scn["tree"]):
            ch = scn["tree"][p]
            if isinstance(ch, list):
                for i in range(len(ch)):
                    c = copy.deepcopy(scn); del c["tree"][p][i]
                    yield c
        for k in sorted(scn.get("opts", {})):
            c = copy.deepcopy(scn); del c["opts"][k]
            yield c

    def describe(self, scn):
        return {"units": scn["units"], "opts": gen.flatten_opts(scn.get("opts", {})), "error_exitcode": scn["exitcode"], "compile_commands": scn.get("project"), "build_dir": scn.get("bd"), "suppressions": scn.get("suppr"),
                "run": " ".join(exec_args(scn["run"])), "faults": scn["faults"]}


PROP = C21()
if __name__ == "__main__":
    sys.exit(engine.main(PROP))
