# C22 - whole-program results do not depend on how summaries are stored (DESIGN.md 6.8)
import sys

from .. import engine, gen
from ..core import Rng
from .base import PropBase, gen_run, gen_project_mode
from .history import run_history, history_candidates, describe_history
from ..engine import Outcome


class C22(PropBase):
    ID = "C22"
    MODULE = "c22"
    RULE = ("scenario = generated multi-file program with cross-unit chains (direct and nested calls of depth up to 3, pointer/index/"
            "uninit arguments, used and unused functions, conflicting class definitions, same-named members) analysed in the modes: "
            "in memory (-j1, no build dir = the reference), build dir -j1 twice (second run served from disk), build dir with "
            "thread and process executors under seeded schedules. Only whole-program ids are compared. distinct_nontrivial counts "
            "distinct (mode, set of whole-program finding ids in the reference) pairs")
    ASSUMPTIONS = ["reference = in-memory summaries (-j1, no build dir)",
                   "the program dimension is sampled by the generator; the simulator contributes storage and scheduling"]

    def count(self, tier):
        return 120 if tier == "quick" else 5000

    def generate(self, seed, tier, idx):
        rng = Rng(seed)
        proj = gen.gen_project(rng, n_units=rng.randint(2, 5), inline=0.1, max_atoms=2, wp=True, same_basename=0.1, cfg_blocks=0.1)
        # more whole-program material
        ctr = gen.Counter(); ctr.n = 500
        decls, per = gen.wp_material(rng, ctr, proj["units"], proj["langs"])
        tree = proj["tree"]
        if decls:
            if "shared.h" not in tree:
                tree["shared.h"] = ["#ifndef SHARED_H\n#define SHARED_H", "#ifdef __cplusplus\nextern \"C\" {\n#endif", "#ifdef __cplusplus\n}\n#endif", "#endif"]
            i = tree["shared.h"].index("#ifdef __cplusplus\n}\n#endif")
            tree["shared.h"][i:i] = decls
        for u, chunks in per.items():
            if not chunks:
                continue
            inc = '#include "%sshared.h"' % ("../" * u.count("/"))
            if inc not in tree[u]:
                pos = 1 if proj["langs"][u] == "cpp" else 0
                tree[u].insert(pos, inc)
            if proj["langs"][u] == "cpp":
                tree[u].extend(['extern "C" {'] + chunks + ["}"])
            else:
                tree[u].extend(chunks)
        opts = {"--enable": rng.choice(["--enable=all", "--enable=style,unusedFunction", "--enable=unusedFunction", "--enable=warning"])}
        if rng.chance(0.3):
            opts["--max-ctu-depth"] = "--max-ctu-depth=%d" % rng.choice([1, 2, 3, 4, 10])
        if rng.chance(0.3):
            opts["--inline-suppr"] = "--inline-suppr"
        hist = [{"run": {"exec": "j1", "seed": rng.next() % 100000}}, {"run": {"exec": "j1", "seed": rng.next() % 100000}}]
        for e in ("thread", "process"):
            hist.append({"wipe": 1})
            hist.append({"run": gen_run(rng, execs=(e,))})
            if rng.chance(0.4):
                hist.append({"run": gen_run(rng, execs=("thread", "process", "j1"))})
        scn = {"tree": tree, "units": proj["units"], "langs": proj["langs"], "opts": opts, "history": hist}
        scn["project"] = gen_project_mode(rng, proj["units"], 0.2)
        return scn

    def execute(self, scn, wd):
        return run_history(scn, wd, Outcome(), self.ID, wp_only=True)

    def candidates(self, scn):
        return history_candidates(scn)

    def describe(self, scn):
        return describe_history(scn)


PROP = C22()
if __name__ == "__main__":
    sys.exit(engine.main(PROP))
