# C24 - unmatched suppressions are reported exactly (DESIGN.md 6.9)
# Oracle 1: schedule independence (every executor/schedule == -j1).  Oracle 2: a small reference model of the
# documented matching rules for the unambiguous suppression sub-language, fed with the raw findings of a
# suppression-free run.
import copy
import fnmatch
import os
import re
import sys

from .. import core, engine, gen
from ..core import Rng
from ..engine import Outcome
from .base import PropBase, STD, exec_args, gen_run, plan_of, not_meta, crashed
from .execsim import run_pair, compare_runs, exec_candidates, describe_exec, is_wp_related

IDS = ["zerodiv", "arrayIndexOutOfBounds", "nullPointer", "uninitvar", "unreadVariable", "memleak", "unusedVariable",
       "constParameterPointer", "shadowVariable", "knownConditionTrueFalse", "neverReported", "unusedStructMember",
       "doubleFree", "redundantAssignment", "invalidPointerCast", "nullPointerRedundantCheck"]


def parse_cmdline(s):
    """--suppress=id[:file[:line]] -> dict"""
    body = s[len("--suppress="):]
    parts = body.split(":")
    d = {"id": parts[0], "file": None, "line": None, "src": s, "kind": "cmdline"}
    if len(parts) > 1:
        d["file"] = parts[1]
    if len(parts) > 2:
        d["line"] = int(parts[2])
    return d


INLINE_RE = re.compile(r"//\s*cppcheck-suppress(-begin|-end|-file|-macro)?\s+(\[[^\]]*\]|\S+)")


def parse_inline(files, units):
    """Inline suppression comments of the units -> list of dicts with their target line."""
    out = []
    for u in units:
        lines = files[u].split("\n")
        # lines inside a conditional block belong to analysed code only for some configurations
        depth, cond = 0, []
        for l in lines:
            t = l.strip()
            if re.match(r"#\s*(if|ifdef|ifndef)\b", t):
                depth += 1
            cond.append(depth > 0)
            if re.match(r"#\s*endif\b", t):
                depth = max(0, depth - 1)
        for i, l in enumerate(lines):
            m = INLINE_RE.search(l)
            if not m:
                continue
            form = m.group(1) or ""
            ids = m.group(2)
            ids = [x.strip() for x in ids[1:-1].split(",")] if ids.startswith("[") else [ids]
            own_line = l.strip().startswith("//")
            tl = i + 1 if own_line else i           # index of the target line
            ttxt = lines[tl].strip() if tl < len(lines) else ""
            # cppcheck reports an unmatched line suppression only if a checked configuration has a token on its line
            # (markUnmatchedInlineSuppressionsAsChecked): "applied to analysed code". The model can tell that for plain
            # code lines outside every conditional block; directive, comment and empty target lines carry no token.
            on_code = bool(ttxt) and not ttxt.startswith("#") and not ttxt.startswith("//") and not ttxt.startswith("/*") and \
                tl < len(cond) and not cond[tl]
            for sid in ids:
                out.append({"id": sid, "file": u, "line": (i + 2) if own_line else (i + 1), "comment_line": i + 1, "form": form or "unique", "on_code": on_code,
                            "kind": "inline", "src": "%s:%d %s" % (u, i + 1, l.strip())})
    return out


def glob(p, s):
    return fnmatch.fnmatchcase(s, p)


def matches(s, f):
    if not glob(s["id"], f.id):
        return False
    if s.get("file") is not None and not glob(s["file"], f.primary_file()):
        return False
    if s.get("line") is not None and str(s["line"]) != f.locs[0][1]:
        return False
    return True


class C24(PropBase):
    ID = "C24"
    MODULE = "c24"
    RULE = ("scenario = project + generated suppression set (command line: id, id:file, id:file:line, glob ids and files; inline: "
            "same-line, next-line, [a,b], begin/end, file) with --enable=information; runs: -j1 and thread/process executors under "
            "seeded schedules. Oracle 1: multiset of unmatchedSuppression reports equal to -j1. Oracle 2 (reference model over the "
            "raw findings of a suppression-free run): never reported for a suppression that matched; exactly one report at the "
            "suppression's own location for an unmatched global exact-id, exact-file or unique inline suppression; no report for "
            "anything that is not in the suppression set. distinct_nontrivial = distinct (executor, jobs, trace hash)")
    ASSUMPTIONS = ["clause (b) (must be reported) is applied only to the unambiguous sub-language: global exact id, exact analysed file "
                   "without line, inline next-line/same-line in a unit whose target line is a plain code line outside every conditional block "
                   "(a suppression aimed at a directive, comment or empty line never applied to analysed code); all forms are held to clause (a) and to schedule independence",
                   "whole-program ids are not used in generated suppressions"]

    def count(self, tier):
        return 110 if tier == "quick" else 6000

    def generate(self, seed, tier, idx):
        rng = Rng(seed)
        proj = gen.gen_project(rng, n_units=rng.randint(1, 5), inline=0.45, headers=0.5, wp=False, cfg_blocks=0.1, max_atoms=4)
        units = proj["units"]
        suppr = []
        for _ in range(rng.randint(0, 4)):
            sid = rng.choice(IDS)
            form = rng.below(6)
            u = rng.choice(units)
            if form == 0:
                suppr.append("--suppress=%s" % sid)
            elif form == 1:
                suppr.append("--suppress=%s:%s" % (sid, u))
            elif form == 2:
                suppr.append("--suppress=%s:%s:%d" % (sid, u, rng.randint(1, 10)))
            elif form == 3:
                suppr.append("--suppress=%s:*.c" % sid)
            elif form == 4:
                suppr.append("--suppress=%s*" % sid[:5])
            else:
                suppr.append("--suppress=%s:shared.h" % sid)
        suppr = sorted(set(suppr))
        opts = {"--enable": rng.choice(["--enable=style,information", "--enable=warning,information", "--enable=information",
                                        "--enable=style,warning,performance,portability,information"]),
                "--inline-suppr": "--inline-suppr"}
        if rng.chance(0.15):
            del opts["--inline-suppr"]
        subs = [gen_run(rng, execs=("thread", "process"), maxjobs=5) for _ in range(rng.randint(1, 3))]
        scn = {"tree": proj["tree"], "units": units, "langs": proj["langs"], "opts": opts, "suppr": suppr, "bd": False,
               "exitcode": None, "subjects": subs}
        scn["suppr_via"] = rng.choice(["cmdline", "cmdline", "list", "xml"])     # the same entries through a suppressions file
        return scn

    def execute(self, scn, wd):
        out = Outcome()
        ref, res = run_pair(scn, wd, out)
        if crashed(ref) or not ref.xml_ok:
            out.probe("reference_unusable")
            return out
        # oracle 1: schedule independence of the unmatchedSuppression reports
        compare_runs(scn, ref, res, out, prop_filter=lambda f: f.id == "unmatchedSuppression", cls="unmatched-differs")
        # oracle 2: reference model
        raw_scn = copy.deepcopy(scn)
        raw_scn["suppr"] = []
        raw_scn["opts"].pop("--inline-suppr", None)
        raw_scn["subjects"] = []
        raw_wd = os.path.join(wd, "raw")
        os.makedirs(raw_wd)
        raw, _ = run_pair(raw_scn, raw_wd, Outcome())
        if crashed(raw) or not raw.xml_ok:
            out.probe("reference_unusable")
            return out
        F = [f for f in raw.findings if not_meta(f) and f.locs]
        files = gen.join_tree(scn["tree"])
        S = [parse_cmdline(s) for s in scn["suppr"]]
        if "--inline-suppr" in scn["opts"]:
            S += parse_inline(files, scn["units"])
        for s in S:
            s["matched"] = any(matches(s, f) for f in F)
        runs = [({"exec": "j1"}, ref)] + res
        # the statement's premise: information messages are enabled (the shrinker may drop --enable)
        en = scn["opts"].get("--enable", "")
        info = "information" in en or "=all" in en
        for run, r in runs:
            if crashed(r) or not r.xml_ok:
                continue
            how = " ".join(exec_args(run))
            um = [f for f in r.findings if f.id == "unmatchedSuppression"]

            def names(f, s):
                if f.msg != "Unmatched suppression: " + s["id"]:
                    return False
                if s["kind"] == "inline":
                    return bool(f.locs) and f.locs[0][0] == s["file"] and f.locs[0][1] in (str(s["line"]), str(s["comment_line"]))
                if s.get("file") is None:
                    return not f.locs
                # a command line suppression without line is reported at line 0 of its file
                return bool(f.locs) and f.locs[0][0] == s["file"] and f.locs[0][1] == str(s["line"] if s.get("line") is not None else 0)
            for s in S:
                out.probe("model_matched" if s["matched"] else ("model_unmatched_must_report" if self._must_report(s, scn) else "model_unmatched_other"))
                hits = [f for f in um if names(f, s)]
                same = [t for t in S if t is not s and (t["id"], t.get("file"), t.get("line"), t["kind"]) == (s["id"], s.get("file"), s.get("line"), s["kind"])]
                if s["matched"] and hits and not any(not t["matched"] for t in same):
                    out.violate("reported-for-matched", "unmatchedSuppression reported for a suppression that matched (%s %s, %s)" % (s["kind"], s.get("form", self._form(s)), run["exec"]),
                                ["%s: %s matched a raw finding but is reported: %s" % (how, s["src"], hits[0].short())], ids=s["kind"] + self._form(s))
                if info and not s["matched"] and self._must_report(s, scn) and not same:
                    if len(hits) != 1:
                        out.violate("unmatched-not-reported", "unmatched %s %s suppression reported %d times (%s)" % (s["kind"], s.get("form", self._form(s)), len(hits), run["exec"]),
                                    ["%s: %s matches no raw finding; unmatchedSuppression reports naming it: %d" % (how, s["src"], len(hits))] + [f.short() for f in um][:6],
                                    ids=s["kind"] + self._form(s) + str(len(hits)))
            for f in um:
                if not any(names(f, s) for s in S):
                    # reports for [a,b]/begin/end/file forms are located by cppcheck's own rules: accept any inline comment with that id in that file
                    loose = any(s["kind"] == "inline" and f.msg == "Unmatched suppression: " + s["id"] and f.locs and f.locs[0][0] == s["file"] for s in S)
                    if not loose:
                        out.violate("unmatched-invented", "unmatchedSuppression for something that is not in the suppression set (%s)" % run["exec"],
                                    ["%s: %s" % (how, f.short()), "suppression set: %s" % [s["src"] for s in S][:8]], ids="invented")
        if S:
            out.nontrivial = True
        return out

    @staticmethod
    def _form(s):
        if s["kind"] == "inline":
            return s.get("form", "unique")
        return "id" if s.get("file") is None else "id:file" if s.get("line") is None else "id:file:line"

    @staticmethod
    def _must_report(s, scn):
        wild = any(ch in s["id"] for ch in "*?")
        if s["kind"] == "cmdline":
            if s.get("file") is None:
                return not wild
            if s.get("line") is None:
                return not wild and s["file"] in scn["units"]
            return False
        return s.get("form") == "unique" and not wild and s.get("on_code", True)

    def candidates(self, scn):
        return exec_candidates(scn)

    def describe(self, scn):
        return describe_exec(scn)


PROP = C24()
if __name__ == "__main__":
    sys.exit(engine.main(PROP))
