# C25 - exit status reflects the reported findings (DESIGN.md 6.10)
# An invariant evaluated on every completed simulated run: all executors and schedules, cold and cached build
# dirs, whole-program-only findings, unmatched-suppression-only runs, runs with a crashed worker, and invalid
# command lines.
import copy
import fnmatch
import os
import sys

from .. import core, engine, gen
from ..core import Rng
from ..engine import Outcome
from .base import PropBase, STD, exec_args, gen_run, plan_of, not_meta, crashed, crash_text, gen_project_mode, input_args
from .execsim import gen_cmdline_suppressions, exec_candidates, describe_exec

INVALID = [["--enable=bogus"], ["--std=c77"], ["--platform=nonexistent_platform"], ["-j0"], ["--error-exitcode=abc"],
           ["--language=java"], ["--xml-version=9"], ["--frobnicate"], ["--suppress="], ["--template"], ["--max-configs=0"],
           ["--executor=fiber"], ["--check-level=bogus"], ["--library=does_not_exist"], ["-l", "x"], ["--showtime=bogus"]]


def nofail_match(entry, f):
    parts = entry.split(":")
    if not fnmatch.fnmatchcase(f.id, parts[0]):
        return False
    if len(parts) > 1 and parts[1]:
        return bool(f.locs) and fnmatch.fnmatchcase(f.locs[0][0], parts[1])
    return True


class C25(PropBase):
    ID = "C25"
    MODULE = "c25"
    RULE = ("scenario = project x options x --error-exitcode=E (or default) x optional --exitcode-suppressions file (exact id and "
            "id:file entries); runs: -j1, thread and process executors under seeded schedules, with and without build dir, a second "
            "(cached) run on the same build dir, optionally one run with a worker killed by an injected fault; plus invalid command "
            "lines. Invariant per run: exit == E iff some reported finding other than checkersReport is not matched by an "
            "exitcode-suppression, else 0; invalid command line -> 1. distinct_nontrivial = distinct (executor, cached?, E, "
            "expected status, kinds of findings that decide it) tuples")
    ASSUMPTIONS = ["--safety is never generated", "exitcode-suppressions only in the exact-id and id:file forms (trivial reference matcher)",
                   "the findings considered are those of the XML error channel of the same run"]

    def count(self, tier):
        return 130 if tier == "quick" else 6000

    def generate(self, seed, tier, idx):
        rng = Rng(seed)
        mode = rng.below(10)
        if mode == 0:
            proj = gen.gen_project(rng, n_units=rng.randint(1, 3), atoms="none", headers=False, wp=False, cfg_blocks=0, inline=0)
        elif mode == 1:
            # whole-program-only findings
            proj = gen.gen_project(rng, n_units=rng.randint(2, 4), atoms="none", headers=False, wp=True, cfg_blocks=0, inline=0)
        else:
            proj = gen.gen_project(rng, n_units=rng.randint(1, 5), inline=0.3, max_atoms=3, wp=rng.chance(0.4))
        opts = {"--enable": rng.choice(["--enable=style,warning,performance,portability", "--enable=all", "--enable=information", "--enable=style,information",
                                        "--enable=unusedFunction", ""])}
        if not opts["--enable"]:
            del opts["--enable"]
        if rng.chance(0.5):
            opts["--inline-suppr"] = "--inline-suppr"
        nofail = []
        for _ in range(rng.choice([0, 0, 1, 2, 4])):
            sid = rng.choice(["zerodiv", "arrayIndexOutOfBounds", "nullPointer", "uninitvar", "unreadVariable", "memleak", "unusedFunction",
                              "unmatchedSuppression", "ctunullpointer", "constParameterPointer", "missingIncludeSystem", "shadowVariable",
                              "knownConditionTrueFalse", "unusedVariable", "doubleFree", "unusedStructMember", "cppcheckError"])
            nofail.append(sid if rng.chance(0.7) else "%s:%s" % (sid, rng.choice(proj["units"])))
        subs = [gen_run(rng, execs=("j1", "thread", "process"), maxjobs=4) for _ in range(rng.randint(1, 3))]
        scn = {"tree": proj["tree"], "units": proj["units"], "langs": proj["langs"], "opts": opts,
               "suppr": gen_cmdline_suppressions(rng, proj["units"]) if rng.chance(0.5) else [], "bd": rng.chance(0.5),
               "exitcode": rng.choice([None, 1, 2, 37, 255]), "nofail": sorted(set(nofail)), "subjects": subs,
               "cached_rerun": rng.chance(0.5), "die": None, "invalid": rng.sample(INVALID, 2)}
        if rng.chance(0.25):
            scn["die"] = {"worker": 0, "msg": rng.choice([0, 1, 2, 99]), "off": rng.choice([0, 1, 5]), "how": rng.choice(["sig", "exit"]), "arg": rng.choice([11, 6, 3])}
        scn["project"] = gen_project_mode(rng, proj["units"], 0.15)
        # The status is only decided by the exitcode suppressions when they cover (nearly) everything that is reported, which a
        # blind draw almost never achieves: in the "cover" modes the entries are derived from the findings of a probing -j1 run.
        scn["nofail_mode"] = rng.choice(["given", "given", "cover-all", "cover-all", "cover-all-but-one"])
        scn["nofail_forms"] = [rng.choice(["id", "id", "id:file"]) for _ in range(12)]
        if rng.chance(0.08):
            # a run whose only finding comes from the whole-program phase and is neither unusedFunction nor a ctu finding:
            # a complete program (main + helper used in its own unit only) -> staticFunction with one job and no build dir
            n = rng.randint(10, 99)
            scn.update({"tree": {"m.c": ["int helper%d(int q){return q*%d;}" % (n, n), "int main(void){return helper%d(2);}" % n]}, "units": ["m.c"], "langs": {"m.c": "c"},
                        "opts": {"--enable": rng.choice(["--enable=all", "--enable=style,unusedFunction"])}, "suppr": [], "nofail": [], "nofail_mode": "given",
                        "project": None, "die": None})
            scn["subjects"] = [{"exec": "j1", "seed": 1}] + scn["subjects"][:1]
        return scn

    def _judge(self, scn, r, how, out, cached):
        E = scn["exitcode"] if scn["exitcode"] is not None else 0
        c = crashed(r)
        if c or not r.xml_ok:
            out.violate("subject-crash", "%s%s" % ((c or "malformed output").split(":")[0], crash_text(r)), [how, c or ""] + r.stderr.strip().split("\n")[-4:], ids="crash")
            return
        deciding = [f for f in r.findings if f.id not in core.META_IDS and not any(nofail_match(e, f) for e in scn["nofail"])]
        expected = E if deciding else 0
        kinds = sorted(set("wp" if f.id in core.WHOLE_PROGRAM_IDS else "unmatched" if f.id == "unmatchedSuppression" else "internal" if f.id == "cppcheckError" else f.severity for f in deciding))
        out.states.append("%s|%s|%s|%s|%s" % (how.split()[0], cached, E, expected, ",".join(kinds)))
        if deciding:
            out.nontrivial = True
        if r.rc != expected:
            only = "only " + "+".join(kinds) + " findings" if deciding else "no deciding finding"
            out.violate("exit-status", "exit %s when %s expected (%s%s)" % ("0" if r.rc == 0 else "E" if r.rc == E else str(r.rc), "E" if expected else "0", only, ", cached run" if cached else ""),
                        ["%s: exit=%d expected=%d; --error-exitcode=%s; exitcode-suppressions=%s" % (how, r.rc, expected, scn["exitcode"], scn["nofail"]),
                         "deciding findings: %s" % [f.short() for f in deciding][:5], "all: %s" % [f.id for f in r.findings][:12]], ids="%s->%s|%s" % (expected != 0, r.rc != 0, ",".join(kinds)))

    def execute(self, scn, wd):
        out = Outcome()
        tree_dir = os.path.join(wd, "tree")
        os.makedirs(tree_dir)
        core.write_tree(tree_dir, gen.join_tree(scn["tree"]))
        units = list(scn["units"])
        oargs = gen.flatten_opts(scn.get("opts", {})) + list(scn.get("suppr", []))
        if scn["exitcode"] is not None:
            oargs.append("--error-exitcode=%d" % scn["exitcode"])
        if scn.get("nofail_mode", "given") != "given":
            probe = core.run_sim("plain", tree_dir, STD + oargs + ["-j1"] + input_args(scn, units, tree_dir, wd, "cdbp"), plan=None, tag="probe",
                                 strip=tree_dir if scn.get("project") else None)
            out.runs += 1
            seen = []
            for f in probe.findings:
                if f.id in core.META_IDS:
                    continue
                form = scn["nofail_forms"][len(seen) % len(scn["nofail_forms"])]
                pf = f.locs[0][0] if f.locs else ""
                e = f.id if form == "id" or not pf or scn.get("project") else "%s:%s" % (f.id, pf)
                if e not in seen and f.id not in [x.split(":")[0] for x in seen]:
                    seen.append(e)
            if scn["nofail_mode"] == "cover-all-but-one" and seen:
                del seen[len(seen) // 2]
            scn = dict(scn); scn["nofail"] = sorted(set(seen))
            out.probe("nofail_" + scn["nofail_mode"])
        if scn["nofail"]:
            with open(os.path.join(wd, "nofail.txt"), "w") as f:
                f.write("\n".join(scn["nofail"]) + "\n")
            oargs.append("--exitcode-suppressions=" + os.path.join(wd, "nofail.txt"))
        for i, run in enumerate(scn["subjects"]):
            b, roots = [], []
            if scn.get("bd"):
                d = "bd%d" % i
                os.makedirs(os.path.join(wd, d))
                b, roots = ["--cppcheck-build-dir=../" + d], ["../" + d]
            run = dict(run)
            if scn.get("die") and run["exec"] == "process" and i == 0:
                run["die"] = [scn["die"]]
            strip = tree_dir if scn.get("project") else None
            args = STD + oargs + b + exec_args(run) + input_args(scn, units, tree_dir, wd, "cdb")
            r = core.run_sim("plain", tree_dir, args, plan=plan_of(run), roots=roots, workdir=wd, tag="sub%d" % i, strip=strip)
            out.account(r)
            self._judge(scn, r, " ".join(exec_args(run)) + (" +bd" if b else "") + (" +worker-death" if run.get("die") else ""), out, False)
            if b and scn.get("cached_rerun"):
                run2 = dict(run); run2.pop("die", None)
                r2 = core.run_sim("plain", tree_dir, args, plan=plan_of(run2), roots=roots, workdir=wd, tag="sub%dc" % i, strip=strip)
                out.account(r2)
                self._judge(scn, r2, " ".join(exec_args(run)) + " +bd (second run)", out, True)
        for inv in scn.get("invalid", []):
            r = core.run_sim("plain", tree_dir, ["-q"] + inv + units[:1], plan=None, tag="inv")
            out.runs += 1
            if r.rc != 1 or r.sig:
                out.violate("invalid-cmdline", "invalid command line exits with %s" % (r.rc if not r.sig else "signal %d" % r.sig), ["args: %s -> rc=%d" % (inv, r.rc), r.stdout.strip()[-200:]], ids=" ".join(inv))
        return out

    def candidates(self, scn):
        for c in exec_candidates(scn):
            yield c
        for i in range(len(scn["nofail"])):
            c = copy.deepcopy(scn); del c["nofail"][i]
            yield c
        if scn.get("die"):
            c = copy.deepcopy(scn); c["die"] = None
            yield c
        if scn.get("cached_rerun"):
            c = copy.deepcopy(scn); c["cached_rerun"] = False
            yield c

    def describe(self, scn):
        d = describe_exec(scn)
        d.update({"exitcode_suppressions": scn["nofail"], "cached_rerun": scn.get("cached_rerun"), "worker_death": scn.get("die"), "invalid_cmdlines": scn.get("invalid")})
        return d


PROP = C25()
if __name__ == "__main__":
    sys.exit(engine.main(PROP))
