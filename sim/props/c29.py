# C29 - output is deterministic across runs (DESIGN.md 6.11)
# The simulator varies every source of nondeterminism that is not an input - heap layout (seeded arena allocator +
# ASLR), directory enumeration order and d_type, clock values, environment variables - and requires the output
# not to move.
import copy
import os
import re
import sys

from .. import core, engine, gen
from ..core import Rng
from ..engine import Outcome
from .base import PropBase, exec_args, gen_run, plan_of, not_meta, crashed, crash_text

HEXID = re.compile(r'"([0-9a-f]{8,16})"')
TEMPLATE = "--template={file}|{line}|{column}|{severity}|{id}|{inconclusive:inconclusive}|{cwe}|{message}|{callstack}"


def canon_dump(text):
    """Rename pointer-valued element ids by order of first occurrence. Ids are addresses and only unique within one
    <dump cfg=...> section (objects of an earlier configuration are freed and their addresses may be reused), so the
    renaming is done per section."""
    out = []
    for part in re.split(r"(?=<dump cfg=)", text):
        m = {}

        def sub(mo, m=m):
            k = mo.group(1)
            if k not in m:
                m[k] = "ID%d" % len(m)
            return '"%s"' % m[k]
        out.append(HEXID.sub(sub, part))
    return "".join(out)


def env_of(rng):
    e = {"LANG": rng.choice(["C", "en_US.UTF-8", "de_DE.UTF-8", "POSIX"]), "TZ": rng.choice(["UTC", "Asia/Tokyo", "America/New_York"]),
         "HOME": rng.choice(["/nonexistent", "/tmp", "/root"]), "COLUMNS": str(rng.choice([40, 80, 200]))}
    e["LC_ALL"] = e["LANG"] if rng.chance(0.5) else "C"
    for i in range(rng.below(4)):
        e["JUNK_%d" % rng.below(1000)] = "x" * rng.below(200)
    return e


class C29(PropBase):
    ID = "C29"
    MODULE = "c29"
    RULE = ("scenario = project x options, input given as a directory; k=3..4 environment seeds per mode, each changing the seeded arena "
            "allocator (relative address order of heap objects), readdir permutation and DT_UNKNOWN, simulated clock epoch, environment "
            "variables (ASLR stays on). -j1: stdout+stderr byte-identical in text-template and XML mode, exit status identical, --dump "
            "files identical after renaming pointer-valued ids by first occurrence. -jN (thread and process, schedule seed varied too): "
            "identical multiset of findings. distinct_nontrivial = distinct (mode, environment seed) runs whose allocator reported a "
            "different address-order flip count than the scenario's first run (i.e. the heap layout really differed)")
    ASSUMPTIONS = ["the allocator replaces operator new/delete only (malloc callers keep glibc's layout)",
                   "timing output (--showtime, progress) is never part of a compared channel"]

    def count(self, tier):
        return 70 if tier == "quick" else 3000

    def generate(self, seed, tier, idx):
        rng = Rng(seed)
        proj = gen.gen_project(rng, corpus=0.35, n_units=rng.randint(2, 7), inline=0.3, max_atoms=5, wp=True, same_basename=0.1, weird_names=0.05)
        opts = {"--enable": rng.choice(["--enable=all", "--enable=style,warning,performance,portability", "--enable=style,information", "--enable=all"]),
                "--inline-suppr": "--inline-suppr"}
        if rng.chance(0.3):
            opts["--inconclusive"] = "--inconclusive"
        if rng.chance(0.2):
            opts["--check-level"] = "--check-level=exhaustive"
        if rng.chance(0.2):
            opts["-D"] = "-DCFG_A"
        if rng.chance(0.2):
            opts["--library"] = "--library=posix"
        envs = [{"alloc": 1 + rng.next() % (1 << 30), "readdir_shuffle": 1, "dt_unknown": int(rng.chance(0.3)), "clock": 1500000000 + rng.below(400000000),
                 "env": env_of(rng), "seed": rng.next() % (1 << 30)} for _ in range(4 if tier == "thorough" else 3)]
        scn = {"tree": proj["tree"], "units": proj["units"], "langs": proj["langs"], "opts": opts, "envs": envs,
               "modes": ["text", "xml", "dump", "thread", "process"] if rng.chance(0.5) else rng.sample(["text", "xml", "dump", "thread", "process"], 3),
               "jobs": rng.randint(2, 4)}
        for e in envs:
            # a fast and a slow machine: simulated microseconds per clock reading (time-based bail-outs would show up here)
            e["clock_step"] = rng.choice([137, 137, 20000, 2000000])
        if rng.chance(0.35):
            # paths that only a careful total order keeps apart: names differing in letter case only (file or directory), names that
            # are prefixes of each other, names with characters that sort around '/' and '.'
            ctr = gen.Counter(); ctr.n = 700
            for _ in range(rng.randint(1, 3)):
                u = rng.choice(proj["units"])
                d, b = (u.rsplit("/", 1) + [""])[:2] if "/" in u else ("", u)
                kind = rng.below(4)
                if kind == 0:
                    nu = (d + "/" if d else "") + b[0].swapcase() + b[1:]
                elif kind == 1:
                    nu = (d.capitalize() if d else "Dir") + "/" + b
                elif kind == 2:
                    nu = (d + "/" if d else "") + b.rsplit(".", 1)[0] + rng.choice(["-x", "_x", "+x", " x", ".x"]) + "." + b.rsplit(".", 1)[1]
                else:
                    nu = (d + "/" if d else "") + b.rsplit(".", 1)[0] + "/" + b
                if nu in scn["tree"] or nu == u:
                    continue
                t, _pid = gen.make_atom(rng, ctr, scn["langs"][u])
                inc = ["#include <string>\n#include <vector>\n#include <list>"] if scn["langs"][u] == "cpp" else []
                scn["tree"][nu] = inc + [t]
                scn["units"] = scn["units"] + [nu]
                scn["langs"][nu] = scn["langs"][u]
        return scn

    def execute(self, scn, wd):
        # The heap layout produced by the seeded allocator depends on every allocation, including those that hold the
        # absolute path of the working directory. A scenario therefore always executes at the same absolute path
        # (derived from its content), whichever process runs it: batch worker, determinism gate or fresh-process replay.
        import fcntl, hashlib, json
        h = hashlib.sha256(json.dumps(scn, sort_keys=True).encode()).hexdigest()[:16]
        base = os.path.join(os.environ.get("TMPDIR", "/tmp"), "verif-c29")
        fwd = os.path.join(base, h)
        lock = None
        for _attempt in range(50):     # another batch may remove the (empty) base directory at any moment
            try:
                os.makedirs(base, exist_ok=True)
                lock = open(fwd + ".lock", "w")
                break
            except OSError:
                import time
                time.sleep(0.01)
        with lock:
            fcntl.flock(lock, fcntl.LOCK_EX)
            core.rmtree(fwd)
            os.makedirs(fwd)
            try:
                return self._execute(scn, fwd)
            finally:
                core.rmtree(fwd)
                try:
                    os.unlink(fwd + ".lock")
                except OSError:
                    pass
                try:
                    os.rmdir(base)
                except OSError:
                    pass

    def _execute(self, scn, wd):
        out = Outcome()
        oargs = gen.flatten_opts(scn.get("opts", {}))
        for mode in scn["modes"]:
            base = None
            flips0 = None
            for ei, env in enumerate(scn["envs"]):
                tree_dir = os.path.join(wd, "%s%d" % (mode, ei), "tree")
                os.makedirs(tree_dir)
                core.write_tree(tree_dir, gen.join_tree(scn["tree"]))
                run = {"seed": env["seed"], "alloc": env["alloc"], "readdir_shuffle": env["readdir_shuffle"], "dt_unknown": env["dt_unknown"], "clock": env["clock"], "clock_step": env.get("clock_step", 137)}
                if mode == "text":
                    args = ["-q", TEMPLATE] + oargs + ["-j1", "."]
                elif mode == "xml":
                    args = ["-q", "--xml"] + oargs + ["-j1", "."]
                elif mode == "dump":
                    args = ["-q", "--dump"] + oargs + ["-j1", "."]
                else:
                    run.update({"exec": mode, "jobs": scn["jobs"], "sched": "random", "sel_timeout": 50, "wait_lag": 200})
                    args = ["-q", "--xml"] + oargs + exec_args(run) + ["."]
                r = core.run_sim("plain", tree_dir, args, plan=plan_of(run), workdir=os.path.dirname(tree_dir), tag="run", env_extra=env["env"])
                out.account(r)
                c = crashed(r)
                if c:
                    out.violate("subject-crash", "%s in mode %s%s" % (c.split(":")[0], mode, crash_text(r)), [c] + r.stderr.strip().split("\n")[-5:], ids="crash")
                    break
                flips = None
                for l in r.trace:
                    if l.startswith("V ") and " alloc " in l:
                        flips = l.split("order_flips=")[1]
                if flips is None:
                    out.error = "allocator probe missing: the seeded allocator was not active"
                    return out
                if mode in ("text", "xml"):
                    obs = (r.rc, r.stdout, r.stderr)
                elif mode == "dump":
                    dumps = {}
                    for root, _d, files in os.walk(tree_dir):
                        for fn in files:
                            if fn.endswith(".dump"):
                                with open(os.path.join(root, fn), encoding="utf-8", errors="replace") as f:
                                    dumps[os.path.relpath(os.path.join(root, fn), tree_dir)] = canon_dump(f.read())
                    obs = (r.rc, tuple(sorted(dumps.items())))
                    if not dumps:
                        out.error = "no dump file written"
                        return out
                else:
                    fs, ok = core.parse_xml_findings(r.stderr)
                    obs = (r.rc, tuple(sorted((repr(k), v) for k, v in core.multiset(fs, not_meta).items())), ok)
                if base is None:
                    base, flips0 = obs, flips
                    continue
                if flips != flips0:
                    out.states.append("%s|%d|%s" % (mode, ei, flips))
                    out.nontrivial = True
                    out.probe("address_order_differed")
                if obs != base:
                    what = self._first_diff(mode, base, obs)
                    out.violate("output-not-deterministic", "%s differs between two environments" % {"text": "text output", "xml": "XML output", "dump": "dump file", "thread": "finding multiset (thread executor)", "process": "finding multiset (process executor)"}[mode],
                                ["mode %s, environment #0 vs #%d (allocator seeds %s / %s, dt_unknown %s/%s)" % (mode, ei, scn["envs"][0]["alloc"], env["alloc"], scn["envs"][0]["dt_unknown"], env["dt_unknown"])] + what, ids=mode)
                    break
        return out

    @staticmethod
    def _first_diff(mode, a, b):
        if a[0] != b[0]:
            return ["exit status %s vs %s" % (a[0], b[0])]
        if mode in ("text", "xml"):
            for name, x, y in (("stdout", a[1], b[1]), ("stderr", a[2], b[2])):
                if x != y:
                    xl, yl = x.split("\n"), y.split("\n")
                    for i in range(max(len(xl), len(yl))):
                        l1 = xl[i] if i < len(xl) else "<eof>"; l2 = yl[i] if i < len(yl) else "<eof>"
                        if l1 != l2:
                            return ["%s line %d:" % (name, i + 1), "  A: " + l1[:200], "  B: " + l2[:200]]
        if mode == "dump":
            da, db = dict(a[1]), dict(b[1])
            for k in sorted(set(da) | set(db)):
                if da.get(k) != db.get(k):
                    xl, yl = da.get(k, "").split("\n"), db.get(k, "").split("\n")
                    for i in range(max(len(xl), len(yl))):
                        l1 = xl[i] if i < len(xl) else "<eof>"; l2 = yl[i] if i < len(yl) else "<eof>"
                        if l1 != l2:
                            return ["%s line %d:" % (k, i + 1), "  A: " + l1[:200], "  B: " + l2[:200]]
        sa, sb = set(a[1]), set(b[1])
        return ["only in A: %s" % [x[0][:150] for x in sorted(sa - sb)][:3], "only in B: %s" % [x[0][:150] for x in sorted(sb - sa)][:3]]

    def candidates(self, scn):
        if len(scn["modes"]) > 1:
            for m in scn["modes"]:
                c = copy.deepcopy(scn); c["modes"] = [m]
                yield c
        if len(scn["envs"]) > 2:
            for i in range(1, len(scn["envs"])):
                c = copy.deepcopy(scn); c["envs"] = [scn["envs"][0], scn["envs"][i]]
                yield c
        if len(scn["units"]) > 1:
            for u in scn["units"]:
                c = copy.deepcopy(scn); c["units"] = [x for x in c["units"] if x != u]; c["tree"].pop(u, None)
                yield c
        for p in sorted(scn["tree"]):
            ch = scn["tree"][p]
            if isinstance(ch, list):
                for i in range(len(ch)):
                    c = copy.deepcopy(scn); del c["tree"][p][i]
                    yield c
        for k in sorted(scn.get("opts", {})):
            c = copy.deepcopy(scn); del c["opts"][k]
            yield c

    def describe(self, scn):
        return {"units": scn["units"], "opts": gen.flatten_opts(scn.get("opts", {})), "modes": scn["modes"], "jobs": scn["jobs"],
                "environments": [{k: v for k, v in e.items() if k != "env"} for e in scn["envs"]]}


PROP = C29()
if __name__ == "__main__":
    sys.exit(engine.main(PROP))
