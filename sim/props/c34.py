# C34 - addon results are relayed faithfully (DESIGN.md 6.12)
# The addon is the second party: it may say anything and die anyhow. simaddon.py plays a seeded script per
# (addon, unit); cppcheck (asan variant: memory errors count as crashes) must relay the well-formed part exactly.
import copy
import json
import os
import sys

from .. import core, engine, gen
from ..core import Rng
from ..engine import Outcome
from .base import PropBase, STD, exec_args, gen_run, plan_of, not_meta, crashed, crash_text

SIMADDON = os.path.join(core.VERIF, "sim", "simaddon.py")
SEVS = ["error", "warning", "style", "performance", "portability", "information"]
ODD_SEVS = ["none", "debug", "internal", "critical", "", "Error"]
APATHS = ["../", "./../", ".././", "././../"]   # spellings of the directory holding the addon .json files (cwd is <wd>/tree)
TEXTS = ["plain message", "with \"quotes\" and 'apostrophes'", "xml <tag> & entity", "utf8 äöü 中文", "tab\there", "semi;colon:colon",
         "percent %s %d", "backslash \\ end", "x" * 10000, "trailing space ", "{curly} [square]"]


def fix_invalid(s):
    out = []
    for b in s.encode("utf-8"):
        out.append(chr(b) if 32 <= b < 127 else "\\%03o" % b)
    return "".join(out)


def enabled_severities(opts):
    e = opts.get("--enable", "")
    en = {"error"}
    if e:
        for part in e.split("=", 1)[1].split(","):
            if part == "all":
                en.update(SEVS + ["debug"])   # --enable=all fills the whole severity group, including 'debug'
            elif part == "style":
                # documented: --enable=style also enables warning, performance and portability
                en.update(["style", "warning", "performance", "portability"])
            elif part in SEVS:
                en.add(part)
    return en


class C34(PropBase):
    ID = "C34"
    MODULE = "c34"
    VARIANTS = ["asan"]
    RULE = ("scenario = project + 1..2 stub addons (one with ctu=true) whose output per (addon, unit) is a seeded script of lines: "
            "well-formed findings (file/linenr/column or loc array, all severities incl. unknown strings, ids/messages with quotes, "
            "XML specials, UTF-8, 10 KiB), summary lines, metric lines, 'Checking' lines, empty lines, non-JSON text, truncated JSON, "
            "JSON of the wrong shape, objects with missing or wrong-typed fields; then exit 0 / exit k / death by signal / stop "
            "mid-line; x executors (seeded schedules) x build dir x --enable subsets x suppressions. AddressSanitizer build. Oracle = "
            "reference model of the relaying rules; a crash, abort or sanitizer report of cppcheck is always a violation. "
            "distinct_nontrivial = distinct (script line kinds, ending, executor, build dir) tuples")
    ASSUMPTIONS = ["the addon itself is a stub (simaddon.py): the property is about cppcheck's relaying",
                   "for invocations with malformed-typed objects either outcome allowed by the statement is accepted (lines skipped or "
                   "an internal error for that invocation); only well-formed lines of clean invocations must be relayed exactly"]

    def count(self, tier):
        return 70 if tier == "quick" else 3000

    # ------------------------------------------------------------------ script generation
    def _line(self, rng, addon, unit, n):
        """-> (text, kind, expectation)"""
        k = rng.below(100)
        if k < 45:
            sev = rng.choice(SEVS) if rng.chance(0.85) else rng.choice(ODD_SEVS)
            msg = rng.choice(TEXTS) + " #%d" % n
            eid = rng.choice(["id%d" % rng.below(4), "c%d.%d" % (rng.below(20), rng.below(9)), "with-dash", "UPPER_%d" % n])
            obj = {"severity": sev, "message": msg, "addon": addon, "errorId": eid}
            line_no, col = rng.randint(0, 30), rng.randint(0, 40)
            fn = unit if rng.chance(0.8) else rng.choice(["shared.h", "other/dir/x.h", "sp ace.h"])
            if rng.chance(0.75):
                obj.update({"file": fn, "linenr": line_no, "column": col})
                locs = [(fn, line_no, col, "")]
            else:
                l2 = (rng.choice([unit, "shared.h"]), rng.randint(1, 9), rng.randint(1, 9), "note %d" % n)
                obj["loc"] = [{"file": l2[0], "linenr": l2[1], "column": l2[2], "info": l2[3]}, {"file": fn, "linenr": line_no, "column": col, "info": ""}]
                locs = [l2, (fn, line_no, col, "")]
            if rng.chance(0.2):
                obj["cwe"] = rng.randint(1, 900)
            return json.dumps(obj, ensure_ascii=rng.chance(0.5)), "finding", {"id": "%s-%s" % (addon, eid), "sev": sev, "msg": msg, "locs": locs}
        if k < 55:
            if rng.chance(0.35):
                # a summary that does not name its unit: byte-identical lines from several units
                e = {"summary": "common%d" % rng.below(2), "data": [1]}
                return json.dumps(e), "summary", e
            return json.dumps({"summary": "sum%d" % n, "data": [n, unit]}), "summary", {"summary": "sum%d" % n, "data": [n, unit]}
        if k < 60:
            return json.dumps({"metric": {"fileName": unit, "function": "f%d" % n, "id": "HIS-x", "lineNumber": n, "value": n}}), "metric", None
        if k < 65:
            return "Checking %s..." % unit, "checking", None
        if k < 70:
            return "", "empty", None
        if k < 75:
            return rng.choice(["Traceback (most recent call last):", "warning: something", "[1, 2, 3]", "42", "null", " {\"leading\": \"space\"}"]), "nonjson", None
        if k < 82:
            return rng.choice(["{\"file\": \"%s\", \"linenr\": 3" % unit, "{not json at all", "{\"a\": }", "{"]), "truncated", None
        if k < 88:
            return rng.choice(["{}", "{\"unrelated\": 1}", "{\"addon\": \"%s\"}" % addon, "{\"file\": \"%s\"}" % unit]), "missing-fields", None
        obj = {"file": unit, "linenr": 3, "column": 1, "severity": "error", "message": "typed %d" % n, "addon": addon, "errorId": "t"}
        f = rng.choice(["file", "linenr", "column", "severity", "message", "addon", "errorId", "loc", "cwe", "metric", "summary-obj"])
        if f == "loc":
            del obj["file"]; obj["loc"] = rng.choice([5, "x", [5], [{"file": 1}]])
        elif f == "metric":
            obj["metric"] = rng.choice([5, "x", [1]])
        elif f == "summary-obj":
            obj = {"summary": {"nested": [1, {"a": None}]}, "x": 1.5}
            return json.dumps(obj), "summary", {"summary": {"nested": [1, {"a": None}]}, "x": 1.5}
        else:
            obj[f] = rng.choice([5, None, [1], {"a": 1}, 1.5, True]) if f not in ("linenr", "column", "cwe") else rng.choice(["7", None, [1], 2.5, {"a": 1}])
        return json.dumps(obj), "wrong-type", None

    def _make_plan(self, rng, addons, units, ctu, n):
        plan = {}
        for a in addons:
            plan[a] = {}
            for u in units:
                mode = rng.below(10)
                lines, kinds, exps = [], [], []
                cnt = rng.randint(0, 6)
                for _ in range(cnt):
                    n += 1
                    if mode < 6:   # clean script: only lines that leave the invocation valid
                        t, k, e = self._line(rng, a, u, n)
                        while k in ("nonjson", "wrong-type", "missing-fields"):
                            t, k, e = self._line(rng, a, u, n)
                    else:
                        t, k, e = self._line(rng, a, u, n)
                    lines.append(t); kinds.append(k); exps.append(e)
                sc = {"lines": lines, "kinds": kinds, "exps": exps, "exit": 0}
                if mode == 8:
                    sc["exit"] = rng.choice([1, 2, 127, 255])
                elif mode == 9:
                    if rng.chance(0.5):
                        sc["signal"] = rng.choice([11, 6, 9, 15])
                    else:
                        sc["tail"] = rng.choice(["{\"file\": \"x", "partial line without newline", "{"])
                plan[a][u] = sc
            if ctu[a]:
                plan[a]["*ctu*"] = {"lines": [], "exit": 0, "echo": True}
                if rng.chance(0.25):
                    t, k, e = self._line(rng, a, "ctu", 9000)
                    plan[a]["*ctu*"].update({"lines": [t], "kinds": [k], "exps": [e]})
                if rng.chance(0.1):
                    plan[a]["*ctu*"]["exit"] = 3
        return plan

    def generate(self, seed, tier, idx):
        rng = Rng(seed)
        proj = gen.gen_project(rng, n_units=rng.randint(1, 4), inline=0.1, max_atoms=2, wp=False, headers=0.3, cfg_blocks=0.0, lang_mix=rng.chance(0.3))
        units = proj["units"]
        addons = ["adda"] + (["addb"] if rng.chance(0.4) else [])
        ctu = {"adda": rng.chance(0.7), "addb": rng.chance(0.3)}
        plan = self._make_plan(rng, addons, units, ctu, 0)
        opts = {"--enable": rng.choice(["--enable=style", "--enable=warning,performance", "--enable=all", "--enable=information", "--enable=style,portability", ""])}
        if not opts["--enable"]:
            del opts["--enable"]
        suppr = []
        if rng.chance(0.3):
            suppr.append("--suppress=adda-id%d" % rng.below(4))
        if rng.chance(0.15):
            suppr.append("--suppress=adda-*:%s" % rng.choice(units))
        runs = [gen_run(rng, execs=("j1", "thread", "process"), maxjobs=4) for _ in range(rng.randint(1, 2))]
        bd = rng.chance(0.5)
        # cppcheck keeps the --addon arguments in a std::unordered_set: the order in which the addons of a unit run is the
        # hash order of the argument strings. The spelling of the (relative) path is therefore part of the scenario - it is
        # the only handle on that order - and must not depend on the scratch directory.
        apath = {a: rng.below(len(APATHS)) for a in ("adda", "addb")}
        scn = {"tree": proj["tree"], "units": units, "langs": proj["langs"], "opts": opts, "suppr": suppr, "addons": addons, "ctu": ctu,
               "plan": plan, "runs": runs, "bd": bd, "apath": apath, "history": None}
        if bd and rng.chance(0.5):
            # second phase on the same build dirs: some units are edited (re-analysed, new addon scripts), the others are served
            # from the cache together with the addon findings and summaries of the first phase
            scn["history"] = {"edit_units": rng.sample(units, rng.randint(1, len(units))), "plan2": self._make_plan(rng, addons, units, ctu, 5000)}
            # make the interesting meeting likely: a summary given in the first phase, and an invocation that goes wrong in the
            # second phase for the same (edited) unit
            n = 9100
            for a in addons:
                for u in units:
                    n += 1
                    sc = plan[a][u]
                    if ctu[a] and rng.chance(0.6) and not sc.get("exit") and not sc.get("signal") and sc.get("tail") is None:
                        e = {"summary": "sum%d" % n, "data": [n, u]}
                        sc["lines"].append(json.dumps(e)); sc["kinds"].append("summary"); sc["exps"].append(e)
                    sc2 = scn["history"]["plan2"][a][u]
                    if rng.chance(0.35):
                        bad = {"file": u, "linenr": rng.choice(["seven", None, [1]]), "column": 1, "severity": "error", "message": "typed %d" % n, "addon": a, "errorId": "t"}
                        sc2["lines"].append(json.dumps(bad)); sc2["kinds"].append("wrong-type"); sc2["exps"].append(None)
        return scn

    # ------------------------------------------------------------------ reference model
    @staticmethod
    def _suppressed(suppr, fid, primary_file):
        import fnmatch
        for s in suppr:
            body = s[len("--suppress="):].split(":")
            if fnmatch.fnmatchcase(fid, body[0]) and (len(body) < 2 or fnmatch.fnmatchcase(primary_file, body[1])):
                return True
        return False

    def execute(self, scn, wd):
        out = Outcome()
        tree_dir = os.path.join(wd, "tree")
        os.makedirs(tree_dir)
        core.write_tree(tree_dir, gen.join_tree(scn["tree"]))
        units = list(scn["units"])
        planp = os.path.join(wd, "addonplan.json")
        with open(planp, "w") as f:
            json.dump({a: {u: {k: v for k, v in sc.items() if k in ("lines", "exit", "signal", "tail", "echo")} for u, sc in d.items()} for a, d in scn["plan"].items()}, f)
        aargs = []
        for a in scn["addons"]:
            jp = os.path.join(wd, a + ".json")
            with open(jp, "w") as f:
                json.dump({"executable": SIMADDON, "args": ["--name=" + a], "ctu": bool(scn["ctu"][a])}, f)
            aargs.append("--addon=" + APATHS[scn.get("apath", {}).get(a, 0)] + a + ".json")
        oargs = gen.flatten_opts(scn.get("opts", {})) + list(scn.get("suppr", []))
        en = enabled_severities(scn.get("opts", {}))
        for ri, run in enumerate(scn["runs"]):
            b, roots = [], []
            if scn.get("bd"):
                d = "bd%d" % ri
                os.makedirs(os.path.join(wd, d))
                b, roots = ["--cppcheck-build-dir=../" + d], ["../" + d]
            args = STD + oargs + aargs + b + exec_args(run) + units
            r = core.run_sim("asan", tree_dir, args, plan=plan_of(run), roots=roots, workdir=wd, tag="run%d" % ri, env_extra={"VERIF_ADDON_PLAN": planp}, timeout=300)
            out.account(r)
            how = " ".join(exec_args(run)) + (" +bd" if b else "")
            kinds_all = sorted(set(k for a in scn["addons"] for u in units for k in scn["plan"][a][u].get("kinds", [])))
            endings = sorted(set(("signal" if sc.get("signal") else "exit%d" % sc.get("exit", 0) if sc.get("exit") else "midline" if sc.get("tail") else "ok")
                                 for a in scn["addons"] for u, sc in scn["plan"][a].items()))
            out.states.append("%s|%s|%s|%s" % (",".join(kinds_all), ",".join(endings), run["exec"], bool(b)))
            self._judge(scn, scn["plan"], r, run, b, out, units, how, kinds_all, endings, en, units, None)
        hist = scn.get("history")
        if hist and scn.get("bd"):
            edited = [u for u in hist["edit_units"] if u in units]
            for u in edited:
                with open(os.path.join(tree_dir, u), "a") as f:
                    f.write("int edited_%d(int a){ return a+%d; }\n" % (units.index(u), units.index(u)))
            plan2 = hist["plan2"]
            with open(planp, "w") as f:
                json.dump({a: {u: {k: v for k, v in sc.items() if k in ("lines", "exit", "signal", "tail", "echo")} for u, sc in d.items()} for a, d in plan2.items()}, f)
            for ri, run in enumerate(scn["runs"]):
                b, roots = ["--cppcheck-build-dir=../bd%d" % ri], ["../bd%d" % ri]
                args = STD + oargs + aargs + b + exec_args(run) + units
                r = core.run_sim("asan", tree_dir, args, plan=plan_of(run), roots=roots, workdir=wd, tag="run%dp2" % ri, env_extra={"VERIF_ADDON_PLAN": planp}, timeout=300)
                out.account(r)
                how = " ".join(exec_args(run)) + " +bd, second run after editing %s" % edited
                kinds_all = sorted(set(k for a in scn["addons"] for u in edited for k in plan2[a][u].get("kinds", [])))
                endings = sorted(set(("signal" if sc.get("signal") else "exit%d" % sc.get("exit", 0) if sc.get("exit") else "midline" if sc.get("tail") else "ok")
                                     for a in scn["addons"] for u, sc in plan2[a].items() if u in edited or u == "*ctu*"))
                out.states.append("%s|%s|%s|phase2" % (",".join(kinds_all), ",".join(endings), run["exec"]))
                out.probe("second_phase_runs")
                self._judge(scn, plan2, r, run, b, out, units, how, kinds_all, endings, en, edited, scn["plan"])
        return out

    def _judge(self, scn, plan, r, run, b, out, units, how, kinds_all, endings, en, relay_units, plan_prev):
        """Oracle for one run. plan: the addon scripts played in this run. relay_units: the units (re)analysed in this run, for
        which the per-invocation relaying rules are checked. plan_prev: scripts of the run that filled the cache (second phase):
        the units outside relay_units are cache hits and keep the summaries they were given then."""
        scn = dict(scn); scn["plan"] = plan
        all_units = units
        c = crashed(r)
        if c or not r.xml_ok:
            out.violate("cppcheck-crash", "cppcheck %s on addon output%s" % ((c or "malformed output").split(":")[0], crash_text(r)),
                        [how, c or "XML output not well formed", "line kinds in scripts: %s; endings: %s" % (kinds_all, endings)] + r.stderr.strip().split("\n")[-6:],
                        ids=(c or "malformed").split(":")[0])
            return
        fs = [f for f in r.findings if not_meta(f)]
        addon_fs = [f for f in fs if any(f.id.startswith(a + "-") for a in scn["addons"])]
        internal = [f for f in fs if f.id == "internalError"]
        out.nontrivial = True
        expected_echo = {a: [] for a in scn["addons"]}
        for a in scn["addons"]:
            for u in relay_units:
                sc = scn["plan"][a][u]
                kinds = sc.get("kinds", [])
                failing = bool(sc.get("exit")) or bool(sc.get("signal")) or "nonjson" in kinds or (sc.get("tail") is not None and not sc["tail"].startswith("{"))
                # An exception raised while converting one addon's objects ends the addon phase of that *unit* (reported as
                # internalError): a malformed-typed line of any addon makes the whole unit's relaying ambiguous.
                ambiguous = any(any(k in ("wrong-type", "missing-fields") for k in scn["plan"][a2][u].get("kinds", [])) or scn["plan"][a2][u].get("tail") is not None
                                for a2 in scn["addons"])
                # ... and an addon that comes later in the (hash) order is then not invoked at all for that unit: a failing
                # script of addon a is only played if no *other* addon's malformed-typed line ended the phase before it.
                others_raise = any(a2 != a and any(k in ("wrong-type", "missing-fields") for k in scn["plan"][a2][u].get("kinds", []))
                                   for a2 in scn["addons"])
                mine = [f for f in addon_fs if f.id.startswith(a + "-") and f.id not in (a + "-echo", a + "-count") and f.file0 == u]
                ie = [f for f in internal if f.locs and f.locs[0][0] == u and (("--name=%s " % a) in f[5] or ("'%s.json'" % a) in f[5] or ("--name=%s " % a) in f.msg or ("'%s.json'" % a) in f.msg)]
                if failing:
                    if not ie and others_raise and any(f.locs and f.locs[0][0] == u for f in internal):
                        # the unit did end in an internal error (raised while another addon's objects were converted); whether
                        # addon a was invoked before that depends on the unspecified addon order
                        out.probe("failing_addon_after_raising_addon")
                    elif not ie:
                        out.violate("no-internal-error", "failing addon invocation not reported as internalError (%s)" % ("exit status" if sc.get("exit") else "signal" if sc.get("signal") else "non-JSON output"),
                                    ["%s: addon %s on %s fails (exit=%s signal=%s kinds=%s) but no internalError names %s" % (how, a, u, sc.get("exit"), sc.get("signal"), kinds, u)], ids="noie")
                    if mine:
                        out.violate("findings-from-failed-addon", "findings relayed from a failing addon invocation", ["%s: addon %s on %s: %s" % (how, a, u, [f.short() for f in mine][:4])], ids="failrelay")
                    continue
                if ambiguous:
                    continue   # either outcome allowed by the statement; "never a crash" was checked above
                # clean invocation: exact relaying
                exp = []
                for k, e in zip(kinds, sc.get("exps", [])):
                    if k == "finding" and e["sev"] in en:
                        primary = e["locs"][-1]
                        if self._suppressed(scn.get("suppr", []), e["id"], primary[0]):
                            continue
                        msg = e["msg"].split("\n")[0]
                        locs = tuple((l[0], str(l[1]), str(l[2]), fix_invalid(l[3])) for l in reversed(e["locs"]))
                        exp.append((e["id"], e["sev"], fix_invalid(msg), locs))
                    if k == "summary" and scn["ctu"][a]:
                        expected_echo[a].append(e)
                got = [(f.id, f.severity, f.msg, f.locs) for f in mine]
                if sorted(set(exp)) != sorted(set(got)):
                    miss = [x for x in sorted(set(exp)) if x not in got][:3]
                    extra = [x for x in sorted(set(got)) if x not in exp][:3]
                    out.violate("relay-differs", "%s findings of a clean addon invocation (%s%s)" % ("missing" if miss and not extra else "altered/extra", run["exec"], ", build dir" if b else ""),
                                ["%s: addon %s on %s" % (how, a, u)] + ["expected but absent: %s" % (str(m)[:300],) for m in miss] + ["reported but not expected: %s" % (str(x)[:300],) for x in extra],
                                ids="relay" + ("-" if miss and not extra else "+"))
                if ie:
                    out.violate("spurious-internal-error", "internalError for a clean addon invocation", ["%s: addon %s on %s: %s" % (how, a, u, ie[0].short())], ids="spurious")
            # summaries forwarded to the whole-program invocation
            if scn["ctu"][a] and scn["plan"][a].get("*ctu*", {}).get("exit", 0) == 0 and not scn["plan"][a]["*ctu*"].get("kinds"):
                echoes = sorted(f.msg for f in addon_fs if f.id == a + "-echo")

                def summaries(pl, us):
                    # the ctu-info handed to a whole-program addon holds the summaries of every addon
                    w = []
                    for a2 in scn["addons"]:
                        for u in us:
                            sc2 = pl[a2][u]
                            w += [fix_invalid("summary-seen " + json.dumps(e, sort_keys=True)) for k, e in zip(sc2.get("kinds", []), sc2.get("exps", [])) if k == "summary"]
                    return w

                def clean(pl, us):
                    return all(not (pl[a2][u].get("exit") or pl[a2][u].get("signal") or pl[a2][u].get("tail") is not None or
                                    any(k in ("nonjson", "wrong-type", "missing-fields") for k in pl[a2][u].get("kinds", []))) for u in us for a2 in scn["addons"])
                cached_units = [u for u in all_units if u not in relay_units]
                want = sorted(summaries(plan, relay_units) + (summaries(plan_prev, cached_units) if plan_prev else []))
                all_clean = clean(plan, relay_units) and (not plan_prev or clean(plan_prev, cached_units))
                # whatever happened to the invocations: a summary that reaches the whole-program phase was printed by an addon in
                # this run, or (second phase) belongs to a unit that was not edited and is served from the cache
                allowed = set(summaries(plan, all_units) + (summaries(plan_prev, cached_units) if plan_prev else []))
                stale = [e for e in echoes if e not in allowed]
                if stale:
                    out.violate("summaries-stale", "whole-program analysis receives addon summaries that no addon gave for the current files (%s)" % run["exec"],
                                ["%s: addon %s" % (how, a), "not given in this run (nor cached for an unedited unit): %s" % stale[:4]], ids="stale")
                elif all_clean and self._suppressed(scn.get("suppr", []), a + "-echo", "ctu") is False and sorted(set(echoes)) != sorted(set(want)):
                    out.violate("summaries-not-forwarded", "addon summaries reaching whole-program analysis differ (%s%s%s)" % (run["exec"], ", build dir" if b else "", ", second run" if plan_prev else ""),
                                ["%s: addon %s" % (how, a), "expected: %s" % want[:4], "got: %s" % echoes[:4]], ids="summ")
                elif all_clean and self._suppressed(scn.get("suppr", []), a + "-count", "ctu") is False:
                    # every summary line counts, also one that equals a line of another unit
                    counts = [f.msg for f in addon_fs if f.id == a + "-count"]
                    if counts != ["summary-count %d" % len(want)]:
                        out.violate("summaries-not-forwarded", "number of addon summaries reaching whole-program analysis differs (%s%s%s)" % (run["exec"], ", build dir" if b else "", ", second run" if plan_prev else ""),
                                    ["%s: addon %s" % (how, a), "expected %d summaries (%d distinct), the whole-program addon saw: %s" % (len(want), len(set(want)), counts)], ids="summcount")

    def candidates(self, scn):
        if scn.get("history"):
            c = copy.deepcopy(scn); c["history"] = None
            yield c
        if len(scn["runs"]) > 1:
            for r in scn["runs"]:
                c = copy.deepcopy(scn); c["runs"] = [r]
                yield c
        if len(scn["addons"]) > 1:
            for a in scn["addons"]:
                c = copy.deepcopy(scn); c["addons"] = [a]
                yield c
        for i, r in enumerate(scn["runs"]):
            if r["exec"] != "j1":
                c = copy.deepcopy(scn); c["runs"][i] = {"exec": "j1", "seed": 1}
                yield c
        if scn.get("bd"):
            c = copy.deepcopy(scn); c["bd"] = False
            yield c
        if len(scn["units"]) > 1:
            for u in scn["units"]:
                c = copy.deepcopy(scn); c["units"] = [x for x in c["units"] if x != u]; c["tree"].pop(u, None)
                yield c
        for a in scn["addons"]:
            for u in scn["units"]:
                sc = scn["plan"][a][u]
                for i in range(len(sc["lines"])):
                    c = copy.deepcopy(scn)
                    for k in ("lines", "kinds", "exps"):
                        del c["plan"][a][u][k][i]
                    yield c
                for k in ("exit", "signal", "tail"):
                    if sc.get(k):
                        c = copy.deepcopy(scn); c["plan"][a][u].pop(k)
                        if k == "exit":
                            c["plan"][a][u]["exit"] = 0
                        yield c
        for i in range(len(scn.get("suppr", []))):
            c = copy.deepcopy(scn); del c["suppr"][i]
            yield c
        for k in sorted(scn.get("opts", {})):
            c = copy.deepcopy(scn); del c["opts"][k]
            yield c

    def describe(self, scn):
        return {"units": scn["units"], "opts": gen.flatten_opts(scn.get("opts", {})) + scn.get("suppr", []), "build_dir": scn.get("bd"),
                "second_phase_edits": (scn.get("history") or {}).get("edit_units"),
                "runs": [" ".join(exec_args(r)) for r in scn["runs"]], "ctu": scn["ctu"],
                "scripts": {a: {u: {"kinds": sc.get("kinds"), "exit": sc.get("exit"), "signal": sc.get("signal"), "tail": sc.get("tail"),
                                    "lines": [l[:160] for l in sc.get("lines", [])]} for u, sc in d.items()} for a, d in scn["plan"].items() if a in scn["addons"]}}


PROP = C34()
if __name__ == "__main__":
    sys.exit(engine.main(PROP))
