# execsim engine: one project analysed by the reference configuration (-j1) and by subject runs under the
# thread scheduler / process transport with seeded schedules and benign perturbations (C15, C24, C25, C17).
import copy
import fnmatch
import os
import re

from .. import core, gen
from ..core import Rng
from ..engine import Outcome
from .base import STD, exec_args, gen_run, plan_of, not_meta, crashed, classify_diff, exotic_tag, crash_text, split_static_function, K8_SIG, input_args, project_candidates

UNMATCHED_PREFIX = "Unmatched suppression: "


def is_wp_related(f):
    """A whole-program finding, or an unmatchedSuppression report about a suppression whose id (possibly a glob such as
    'unus*') can match a whole-program id: whether that suppression was matched depends on the whole-program findings."""
    if f.id in core.WHOLE_PROGRAM_IDS:
        return True
    if f.id == "unmatchedSuppression" and f.msg.startswith(UNMATCHED_PREFIX):
        pat = f.msg[len(UNMATCHED_PREFIX):]
        return any(fnmatch.fnmatchcase(w, pat) for w in core.WHOLE_PROGRAM_IDS)
    return False


SUPPR_IDS = ["zerodiv", "arrayIndexOutOfBounds", "nullPointer", "uninitvar", "unreadVariable", "memleak", "unusedVariable",
             "constParameterPointer", "shadowVariable", "knownConditionTrueFalse", "unusedFunction", "neverReported",
             "unusedStructMember", "cstyleCast", "missingIncludeSystem", "unmatchedSuppression"]


def gen_cmdline_suppressions(rng, units, n=None):
    """Command line suppressions of the documented forms: id, id:file, id:file:line, globs."""
    out = []
    for _ in range(n if n is not None else rng.choice([0, 0, 1, 2, 3])):
        sid = rng.choice(SUPPR_IDS[:-1]) if rng.chance(0.95) else "unmatchedSuppression"
        form = rng.below(6)
        u = rng.choice(units)
        if form == 0:
            out.append("--suppress=%s" % sid)
        elif form == 1:
            out.append("--suppress=%s:%s" % (sid, u))
        elif form == 2:
            out.append("--suppress=%s:%s:%d" % (sid, u, rng.randint(1, 12)))
        elif form == 3:
            out.append("--suppress=%s:*.c" % sid)
        elif form == 4:
            out.append("--suppress=%s*" % sid[:4])
        else:
            out.append("--suppress=%s:shared.h" % sid)
    # cppcheck rejects a command line that gives the same suppression twice ("suppression '..' already exists", exit 1):
    # that is an invalid command line, not a run, so repeated draws are dropped (no draw is consumed by this)
    return [s for i, s in enumerate(out) if s not in out[:i]]


def suppression_args(scn, wd):
    """The scenario's suppressions as --suppress= options, or the same entries through a --suppressions-list file or a
    --suppress-xml file (scn["suppr_via"])."""
    sup = list(scn.get("suppr", []))
    via = scn.get("suppr_via", "cmdline")
    if via == "cmdline" or not sup:
        return sup
    entries = [x[len("--suppress="):] for x in sup]
    if via == "list":
        path = os.path.join(wd, "suppressions.txt")
        with open(path, "w") as f:
            f.write("# generated\n" + "\n".join(entries) + "\n")
        return ["--suppressions-list=" + path]
    from xml.sax.saxutils import escape
    path = os.path.join(wd, "suppressions.xml")
    with open(path, "w") as f:
        f.write('<?xml version="1.0"?>\n<suppressions>\n')
        for e in entries:
            p = e.split(":")
            f.write("  <suppress><id>%s</id>" % escape(p[0]))
            if len(p) > 1:
                f.write("<fileName>%s</fileName>" % escape(p[1]))
            if len(p) > 2:
                f.write("<lineNumber>%s</lineNumber>" % p[2])
            f.write("</suppress>\n")
        f.write("</suppressions>\n")
    return ["--suppress-xml=" + path]


def run_pair(scn, wd, out, variant="plain", text_channel=False):
    """Executes reference and subjects; returns (ref, [(run, result)...]) or None if unusable."""
    tree_dir = os.path.join(wd, "tree")
    os.makedirs(tree_dir, exist_ok=True)
    core.write_tree(tree_dir, gen.join_tree(scn["tree"]))
    units = list(scn["units"])
    oargs = gen.flatten_opts(scn.get("opts", {})) + suppression_args(scn, wd)
    if scn.get("exitcode") is not None:
        oargs.append("--error-exitcode=%d" % scn["exitcode"])
    bdn = [0]

    def bd_args():
        if not scn.get("bd"):
            return [], []
        bdn[0] += 1
        d = "bd%d" % bdn[0]
        os.makedirs(os.path.join(wd, d))
        return ["--cppcheck-build-dir=../" + d], ["../" + d]

    std = ["-q", core.TEXT_TEMPLATE] if scn.get("channel") == "text" else STD
    strip = tree_dir if scn.get("project") else None
    if scn.get("nofail_cover"):
        # exitcode suppressions covering every id a probing run reports (all but one for "but-one"): only then do they,
        # and their transfer to the workers, decide the exit status
        probe = core.run_sim(variant, tree_dir, STD + oargs + ["-j1"] + input_args(scn, units, tree_dir, wd, "probe"), plan=None, tag="probe", strip=strip)
        ids = sorted(set(f.id for f in probe.findings if f.id not in core.META_IDS))
        if scn["nofail_cover"] == "but-one" and ids:
            del ids[len(ids) // 2]
        if ids:
            with open(os.path.join(wd, "nofail.txt"), "w") as f:
                f.write("\n".join(ids) + "\n")
            oargs.append("--exitcode-suppressions=" + os.path.join(wd, "nofail.txt"))
    b, roots = bd_args()
    ref = core.run_sim(variant, tree_dir, std + oargs + b + ["-j1"] + input_args(scn, units, tree_dir, wd, "ref"), plan=None, tag="ref", strip=strip)
    res = []
    for i, run in enumerate(scn["subjects"]):
        b, roots = bd_args()
        r = core.run_sim(variant, tree_dir, std + oargs + b + exec_args(run) + input_args(scn, units, tree_dir, wd, "sub%d" % i), plan=plan_of(run),
                         roots=roots, workdir=wd, tag="sub%d" % i, strip=strip)
        out.account(r)
        res.append((run, r))
    return ref, res


def compare_runs(scn, ref, res, out, prop_filter=None, cls="parallel-differs"):
    """C15 oracles 1-3 over the history."""
    bd = bool(scn.get("bd"))

    # Without a build dir whole-program findings exist only with one job. A line-specific suppression is reported as
    # unmatched only once some finding was seen on its line ("checked"), so an unmatchedSuppression report at the very
    # location of a whole-program finding is a consequence of that finding and is excluded with it (narrowly: same file+line).
    wp_locs = set()
    if not bd and not crashed(ref):
        for f in ref.findings:
            if f.id in core.WHOLE_PROGRAM_IDS:
                for l in f.locs:
                    wp_locs.add((l[0], l[1]))

    if not bd:
        # ... and the same holds when that whole-program finding is itself suppressed by a command-line entry for exactly
        # that line (it then never shows up in the output, but still marks the line's suppressions as checked with -j1)
        for sup in scn.get("suppr", []):
            parts = sup[len("--suppress="):].split(":")
            if len(parts) == 3 and parts[2].isdigit() and any(fnmatch.fnmatchcase(w, parts[0]) for w in core.WHOLE_PROGRAM_IDS):
                wp_locs.add((parts[1], parts[2]))

    def keep(f):
        if not not_meta(f):
            return False
        if not bd and is_wp_related(f):
            return False
        if not bd and f.id == "unmatchedSuppression" and f.locs and (f.locs[0][0], f.locs[0][1]) in wp_locs:
            return False
        return prop_filter(f) if prop_filter else True

    if crashed(ref) or not ref.xml_ok:
        out.probe("reference_unusable")
        return
    mr = core.multiset(ref.findings, keep)
    excluded_ref = [f for f in ref.findings if not_meta(f) and not keep(f)]
    if mr:
        out.nontrivial = True
    for run, r in res:
        ex = " ".join(exec_args(run))
        c = crashed(r)
        if c:
            out.violate("subject-crash", "%s under %s%s%s" % (c.split(":")[0], run["exec"], crash_text(r), exotic_tag(scn["units"])),
                        ["%s: %s" % (ex, c)] + r.stderr.strip().split("\n")[-6:], ids=c.split(":")[0])
            continue
        if r.rc == 1 and "#### ThreadExecutor" in r.stderr:
            out.violate("executor-abort", "executor abort path under %s" % run["exec"], [ex] + [l for l in r.stderr.split("\n") if "####" in l][:3],
                        ids="abort")
            continue
        ms = core.multiset(r.findings, keep)
        excluded_sub = [f for f in r.findings if not_meta(f) and not keep(f)]
        out.states.append("%s|%d|%s" % (run["exec"], run.get("jobs", 1), r.trace_hash))
        if ms != mr or not r.xml_ok:
            oa, ob = core.diff_multisets(ms, mr)
            oa, ob, k8 = split_static_function(oa, ob)
            if k8:
                out.violate(cls, K8_SIG, ["%s vs -j1 (build dir: %s)" % (ex, bd), "staticFunction findings of -j1 are absent"], ids="-staticFunction")
            if not (oa or ob) and r.xml_ok:
                continue
            kind = classify_diff(oa, ob) if r.xml_ok else "malformed-output"
            if r.xml_ok and oa and ob:
                # do the two sides differ only by cppcheck's own sanitising of non-printable message bytes (\\ooo)?
                def san(f):
                    t = "".join(chr(b) if 32 <= b < 127 else "\\%03o" % b for b in f.msg.encode("utf-8", "surrogateescape"))
                    return core.Finding(f[:4] + (t,) + f[5:])
                if sorted((repr(san(f)), c) for f, c in oa) == sorted((repr(san(f)), c) for f, c in ob):
                    kind = "message-bytes-sanitised"
            ids = ",".join(sorted(set(("+" if side == 0 else "-") + f.id for side, lst in enumerate((oa, ob)) for f, _ in lst)))
            out.violate(cls, "%s under %s%s%s" % (kind, run["exec"], " with build dir" if bd else "", exotic_tag(scn["units"])),
                        ["%s vs -j1 (build dir: %s)" % (ex, bd)] + core.fmt_diff(oa, ob, ex, "-j1"), ids=ids)
        elif r.rc != ref.rc and (bd or (not excluded_ref and not excluded_sub)) and prop_filter is None:
            out.violate("exit-differs", "exit status %d vs %d under %s" % (r.rc, ref.rc, run["exec"]),
                        ["%s exit=%d, -j1 exit=%d, findings equal" % (ex, r.rc, ref.rc)], ids="rc")


def exec_candidates(scn):
    subs = scn["subjects"]
    if len(subs) > 1:
        for i in range(len(subs)):
            c = copy.deepcopy(scn); c["subjects"] = [subs[i]]
            yield c
    for i, r in enumerate(subs):
        if r.get("jobs", 2) > 2:
            c = copy.deepcopy(scn); c["subjects"][i]["jobs"] = 2
            yield c
        for k in ("sel_timeout", "wait_lag", "loadavg"):
            if r.get(k):
                c = copy.deepcopy(scn); del c["subjects"][i][k]
                yield c
        if r.get("sched") not in (None, "rr"):
            c = copy.deepcopy(scn); c["subjects"][i]["sched"] = "rr"
            yield c
    for c in project_candidates(scn):
        yield c
    if scn.get("bd"):
        c = copy.deepcopy(scn); c["bd"] = False
        yield c
    if scn.get("channel") == "text":
        c = copy.deepcopy(scn); c["channel"] = "xml"
        yield c
    if scn.get("suppr_via", "cmdline") != "cmdline":
        c = copy.deepcopy(scn); c["suppr_via"] = "cmdline"
        yield c
    if scn.get("nofail_cover"):
        c = copy.deepcopy(scn); c["nofail_cover"] = None
        yield c
    for i in range(len(scn.get("suppr", []))):
        c = copy.deepcopy(scn); del c["suppr"][i]
        yield c
    if len(scn["units"]) > 1:
        for u in scn["units"]:
            c = copy.deepcopy(scn); c["units"] = [x for x in c["units"] if x != u]; c["tree"].pop(u, None)
            yield c
    for p in sorted(scn["tree"]):
        ch = scn["tree"][p]
        if isinstance(ch, list):
            for i in range(len(ch)):
                c = copy.deepcopy(scn); del c["tree"][p][i]
                yield c
    for k in sorted(scn.get("opts", {})):
        c = copy.deepcopy(scn); del c["opts"][k]
        yield c
    if scn.get("exitcode") is not None:
        c = copy.deepcopy(scn); c["exitcode"] = None
        yield c


def describe_exec(scn):
    return {"units": scn["units"], "opts": gen.flatten_opts(scn.get("opts", {})) + scn.get("suppr", []), "build_dir": bool(scn.get("bd")), "channel": scn.get("channel", "xml"),
            "error_exitcode": scn.get("exitcode"), "compile_commands": scn.get("project"), "exitcode_suppressions": scn.get("nofail_cover"),
            "subjects": [" ".join(exec_args(r)) + "".join(" %s=%s" % (k, r[k]) for k in ("sched", "sel_timeout", "wait_lag", "loadavg") if r.get(k)) for r in scn["subjects"]]}
