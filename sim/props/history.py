# buildsim engine: histories of edits / option changes / runs / kills against one build directory
# (C18, C19, C20, C22).  The durable state in <wd>/bd is the only thing that survives between runs.
import os

from .. import core, gen
from ..core import Rng, mix
from ..engine import Outcome
from .base import STD, exec_args, plan_of, not_meta, crashed, classify_diff, exotic_tag, crash_text, split_static_function, K8_SIG, K9_KIND, input_args, project_candidates


def edit_kind(desc):
    w = desc.split()
    k = w[0] if w else "?"
    if desc.startswith("line shift by"):
        s = int(w[3])
        return "lineshift%s" % ("256k" if s % 256 == 0 else "")
    if desc.startswith("column shift by"):
        s = int(w[3])
        return "colshift%s" % ("256k" if s % 256 == 0 else "")
    if desc.startswith("comment"):
        return "comment"
    if desc.startswith("add inline suppression (unmatched)"):
        return "inline_nomatch"
    if desc.startswith("remove inline"):
        return "inline_remove"
    if desc.startswith("header inline suppression (unmatched)"):
        return "inline_hdr_nomatch"
    if desc.startswith("add inline"):
        return "inline_add"
    if desc.startswith("add file"):
        return "addfile"
    if desc.startswith("remove file"):
        return "rmfile"
    if desc.startswith("drop #include"):
        return "drop_include"
    if desc.startswith("header inline"):
        return "inline_hdr"
    if desc.startswith("inner header"):
        return "inner_header"
    if desc.startswith("header"):
        return "header"
    if desc.startswith("swap"):
        return "swap"
    return k


K10_SIG = "inline suppression of a unit also applies to a same-named unit in a sub-path (single job only)"
K12_SIG = "inline suppression in a header reached through a computed include is applied or not depending on which unit is analysed first"


K13_SIG = "unmatchedSuppression located in a header is missing when the units including it are served from the cache"


def _header_unmatched_lost(oa, ob, units, n_written):
    """Known finding K13: an unmatched inline suppression inside a header is only reported by a run that re-analyses a unit
    including the header (the report is not stored in any cache file, and a cached unit does not mark suppressions as checked).
    True iff every difference is such a report missing on the cached side. (Which units were cache hits cannot be told from
    the op trace here: appending the units' own unmatchedSuppression reports rewrites their cache files as well.)"""
    if oa or not ob:
        return False
    return all(f.id == "unmatchedSuppression" and f.primary_file() not in units and f.primary_file().endswith(".h") for f, _c in ob)


def _computed_include_header_suppression(tree, oa, ob):
    """Known finding K12: the inline suppressions of a header that a unit includes through a macro (#include MACRO) are unknown
    while that unit is analysed - unless another unit that includes the header literally was analysed before in the same
    process. True iff the tree has that shape and every difference is located in the header."""
    if "shared.h" not in tree or "cppcheck-suppress" not in "\n".join(c for c in tree["shared.h"] if isinstance(c, str)):
        return False
    if not any("#include SHARED_HDR" in c for q in tree if q != "shared.h" for c in tree[q] if isinstance(c, str)):
        return False
    return bool(oa or ob) and all(f.primary_file() == "shared.h" for f, _c in list(oa) + list(ob))


def _samename_suppression_leak(oa, ob, units):
    """Known finding K10: in a single-job run the inline suppressions of unit 'x.c' stay in the shared list with the
    relative file name 'x.c', which PathMatch also matches against 'dir/x.c'. Workers of a multi-job run only see their own
    inline suppressions. True iff every difference is a finding in such a deeper unit or an unmatchedSuppression in the
    shallower one."""
    pairs = [(a, b) for a in units for b in units if a != b and b.endswith("/" + a)]
    if not pairs or not (oa or ob):
        return False
    deep = set(b for _a, b in pairs); shallow = set(a for a, _b in pairs)
    for f, _c in list(oa) + list(ob):
        pf = f.primary_file()
        if f.id == "unmatchedSuppression" and pf in shallow:
            continue
        if f.id != "unmatchedSuppression" and pf in deep:
            continue
        return False
    return True


def unit_cache_state(r, units):
    """Which units were (re)analysed (their .aN file was rewritten) according to the op trace."""
    written = set()
    for o in r.ops():
        if len(o) >= 6 and o[4] == "opentrunc" and ".a" in o[5].split("/")[-1]:
            written.add(o[5])
    return written


def run_history(scn, wd, out, prop_id, variant="plain", judge_exit=False, wp_only=False):
    tree_dir = os.path.join(wd, "tree")
    bd = os.path.join(wd, "bd")
    os.makedirs(tree_dir); os.makedirs(bd)
    core.write_tree(tree_dir, gen.join_tree(scn["tree"]))
    tree = dict(scn["tree"])
    units = list(scn["units"])
    opts = dict(scn.get("opts", {}))
    since = []          # change descriptors since the last completed subject run
    pscn = {"project": scn.get("project")}     # compile-database mode (may be changed by a history step)
    runs_done = 0
    states = []
    for si, step in enumerate(scn["history"]):
        if "edit" in step:
            e = step["edit"]
            core.write_tree(tree_dir, gen.join_tree({p: c for p, c in e["set"].items() if c is not None}))
            for p, c in e["set"].items():
                if c is None:
                    fp = os.path.join(tree_dir, p)
                    if os.path.exists(fp):
                        os.unlink(fp)
                    tree.pop(p, None)
                else:
                    tree[p] = c
            units = list(e["units"])
            since.append("edit:" + edit_kind(e["desc"]))
            continue
        if "opts" in step:
            new = dict(step["opts"])
            for k in sorted(set(new) | set(opts)):
                if new.get(k) != opts.get(k):
                    since.append("opt:" + k)
            opts = new
            continue
        if "project" in step:
            pscn = {"project": step["project"]}
            since.append("opt:compile-database-defines")
            continue
        if "wipe" in step:
            core.rmtree(bd); os.makedirs(bd)
            since = ["wipe"]
            continue
        run = step["run"]
        oargs = gen.flatten_opts(opts)
        strip = tree_dir if pscn["project"] else None
        inp = input_args(pscn, units, tree_dir, wd, "cdb%d" % si)
        args = STD + oargs + ["--cppcheck-build-dir=../bd"] + exec_args(run) + inp
        r = core.run_sim(variant, tree_dir, args, plan=plan_of(run), roots=["../bd"], workdir=wd, tag="run%d" % si, strip=strip)
        out.account(r)
        if "crash_op" in run:
            # the victim: its own output is not judged; it must have been killed by the injected crash (or have finished first)
            fired = any(l.startswith("X ") and " crash " in l for l in r.trace)
            out.probe("victim_killed" if fired else "victim_completed")
            if fired and r.sig != 9:
                out.error = "crash injected but process ended rc=%s sig=%s" % (r.rc, r.sig)
            if fired:
                since.append("kill")
            else:
                since = []
            continue
        c = crashed(r)
        if c:
            out.violate("subject-crash", "%s after [%s]%s%s" % (c.split(":")[0], ",".join(sorted(set(since))), crash_text(r), exotic_tag(units)),
                        ["run #%d %s" % (si, c), "args: " + " ".join(args)] + r.stderr.strip().split("\n")[-6:])
            since = []
            continue
        ref_args = STD + oargs + ["-j1"] + inp
        ref = core.run_sim(variant, tree_dir, ref_args, plan=None, tag="ref%d" % si, strip=strip)
        cr = crashed(ref)
        if cr or not ref.xml_ok:
            out.probe("reference_unusable")
            since = []
            continue
        keep = (lambda f: not_meta(f) and f.id in core.WHOLE_PROGRAM_IDS) if wp_only else not_meta
        ms, mr = core.multiset(r.findings, keep), core.multiset(ref.findings, keep)
        written = unit_cache_state(r, units)
        states.append("%d:%s:%s" % (runs_done, ",".join(sorted(set(since))), len(written)))
        if runs_done > 0 and len(written) < len(units):
            out.probe("cache_hit_runs")
        if ms != mr or not r.xml_ok:
            oa, ob = core.diff_multisets(ms, mr)
            oa, ob, k8 = split_static_function(oa, ob)
            head = ["run #%d (%s) vs reference without build dir; changes since previous run: %s" % (si, " ".join(exec_args(run)), since), "args: " + " ".join(args)]
            if k8:
                out.violate("findings-differ", K8_SIG, head + ["staticFunction findings of the fresh run are absent"], ids="-staticFunction")
            if oa or ob or not r.xml_ok:
                kind = classify_diff(oa, ob, list(mr)) if r.xml_ok else "malformed-output"
                sig = "%s after [%s]%s" % (kind, ",".join(sorted(set(since))) or "nothing", exotic_tag(units))
                if r.xml_ok and _samename_suppression_leak(oa, ob, units):
                    sig = K10_SIG
                elif r.xml_ok and _computed_include_header_suppression(tree, oa, ob):
                    sig = K12_SIG
                elif r.xml_ok and runs_done > 0 and _header_unmatched_lost(oa, ob, units, len(written)):
                    sig = K13_SIG
                elif kind == K9_KIND and run.get("exec", "j1") == "j1" and runs_done > 0 and 0 < len(written) < len(units):
                    # known finding K9 needs exactly this: one job (only then is there an in-memory whole-program analysis next
                    # to the build-dir one), some units re-analysed and some taken from the cache; anywhere else a duplicated
                    # whole-program finding keeps its ordinary signature and is reported
                    sig = K9_KIND + " in a partially cached run"
                det = head + core.fmt_diff(oa, ob, "cached", "fresh")
                ids = ",".join(sorted(set(("+" if side == 0 else "-") + k.id for side, lst in enumerate((oa, ob)) for k, _ in lst)))
                out.violate("findings-differ", sig, det, ids=ids)
        elif judge_exit and r.rc != ref.rc:
            out.violate("exit-differs", "rc %d vs %d after [%s]" % (r.rc, ref.rc, ",".join(sorted(set(since)))),
                        ["args: " + " ".join(args)])
        if mr:
            out.nontrivial = True
        runs_done += 1
        since = []
    out.states.extend(states)
    return out


# --------------------------------------------------------------------------- generic shrinking of a history scenario
def history_candidates(scn):
    import copy
    h = scn["history"]
    # 1. drop history steps (but keep the last run)
    last_run = max(i for i, s in enumerate(h) if "run" in s)
    for i in range(len(h)):
        if i == last_run:
            continue
        c = copy.deepcopy(scn); del c["history"][i]
        if _valid(c):
            yield c
    for c in project_candidates(scn):
        yield c
    # 2. drop units
    if len(scn["units"]) > 1:
        for u in scn["units"]:
            c = copy.deepcopy(scn)
            if not _drop_unit(c, u):
                continue
            yield c
    # 3. drop chunks
    for p in sorted(scn["tree"]):
        ch = scn["tree"][p]
        if not isinstance(ch, list):
            continue
        for i in range(len(ch)):
            c = copy.deepcopy(scn); del c["tree"][p][i]
            yield c
    # 4. drop options
    for k in sorted(scn.get("opts", {})):
        c = copy.deepcopy(scn); del c["opts"][k]
        yield c
    for i, s in enumerate(h):
        if "opts" in s:
            for k in sorted(s["opts"]):
                c = copy.deepcopy(scn); del c["history"][i]["opts"][k]
                yield c
        if "edit" in s:
            for p in sorted(s["edit"]["set"]):
                ch = s["edit"]["set"][p]
                if isinstance(ch, list) and len(ch) > 1:
                    for j in range(len(ch)):
                        c = copy.deepcopy(scn); del c["history"][i]["edit"]["set"][p][j]
                        yield c
        if "run" in s:
            r = s["run"]
            if r.get("exec", "j1") != "j1" and "crash_op" not in r:
                c = copy.deepcopy(scn); c["history"][i]["run"] = {"exec": "j1", "seed": r.get("seed", 1)}
                yield c
            elif r.get("jobs", 2) > 2:
                c = copy.deepcopy(scn); c["history"][i]["run"]["jobs"] = 2
                yield c
            for k in ("sel_timeout", "wait_lag", "chunk"):
                if r.get(k):
                    c = copy.deepcopy(scn); del c["history"][i]["run"][k]
                    yield c


def _valid(scn):
    return any("run" in s for s in scn["history"])


def _drop_unit(scn, u):
    scn["units"] = [x for x in scn["units"] if x != u]
    scn["tree"].pop(u, None)
    for s in scn["history"]:
        if "edit" in s:
            e = s["edit"]
            if u not in e["units"] and u in e["set"]:
                pass
            e["units"] = [x for x in e["units"] if x != u]
            if not e["units"]:
                return False
    return True


def describe_history(scn):
    d = {"units": scn["units"], "opts": gen.flatten_opts(scn.get("opts", {})), "compile_commands": scn.get("project"), "history": []}
    for s in scn["history"]:
        if "edit" in s:
            d["history"].append("edit: " + s["edit"]["desc"])
        elif "opts" in s:
            d["history"].append("options := " + " ".join(gen.flatten_opts(s["opts"])))
        elif "wipe" in s:
            d["history"].append("wipe build dir")
        elif "project" in s:
            d["history"].append("compile database := %s" % (s["project"],))
        else:
            r = s["run"]
            t = "run " + " ".join(exec_args(r))
            if "crash_op" in r:
                t += " KILLED at op %s prefix %s/1000" % (r["crash_op"], r.get("crash_prefix", 0))
            d["history"].append(t)
    return d
