// libverifsim: the interposition layer that turns the unmodified cppcheck CLI into
// "cppcheck-sim" (DESIGN.md section 3).  Everything cppcheck does that meets
// nondeterminism - threads, mutexes, forked workers and their pipes, build-dir
// files, directory enumeration, clocks, heap layout - passes through here.
// Without VERIF_SIM_PLAN in the environment every function is a pass-through.
//
// This file is never sanitizer-instrumented and parks threads with raw futexes,
// so ThreadSanitizer sees only the program's own synchronisation.
#ifndef _GNU_SOURCE
#define _GNU_SOURCE
#endif
#include <atomic>
#include <cerrno>
#include <climits>
#include <cstdarg>
#include <cstdint>
#include <cstdio>
#include <cstdlib>
#include <cstring>
#include <dirent.h>
#include <dlfcn.h>
#include <fcntl.h>
#include <linux/futex.h>
#include <new>
#include <pthread.h>
#include <signal.h>
#include <poll.h>
#include <sys/mman.h>
#include <sys/select.h>
#include <sys/socket.h>
#include <sys/stat.h>
#include <sys/syscall.h>
#include <sys/time.h>
#include <sys/types.h>
#include <sys/uio.h>
#include <sys/wait.h>
#include <time.h>
#include <unistd.h>

#define VIS extern "C" __attribute__((visibility("default")))

// ---------------------------------------------------------------------------
// real functions: the sanitizer's interceptor when one is linked in, libc otherwise
// ---------------------------------------------------------------------------
#define DECL_REAL(ret, name, ...)                                                  \
    extern "C" ret __interceptor_##name(__VA_ARGS__) __attribute__((weak));        \
    typedef ret (*name##_fn)(__VA_ARGS__);                                         \
    static name##_fn real_##name##_p;                                              \
    static inline name##_fn R_##name() {                                           \
        if (!real_##name##_p) {                                                    \
            real_##name##_p = __interceptor_##name ? (name##_fn)__interceptor_##name \
                                                   : (name##_fn)dlsym(RTLD_NEXT, #name); \
        }                                                                          \
        return real_##name##_p;                                                    \
    }

DECL_REAL(ssize_t, read, int, void*, size_t)
DECL_REAL(ssize_t, write, int, const void*, size_t)
DECL_REAL(ssize_t, writev, int, const struct iovec*, int)
DECL_REAL(int, close, int)
DECL_REAL(int, fclose, FILE*)
DECL_REAL(FILE*, fopen, const char*, const char*)
DECL_REAL(FILE*, fopen64, const char*, const char*)
DECL_REAL(int, pipe, int*)
DECL_REAL(pid_t, fork, void)
DECL_REAL(int, select, int, fd_set*, fd_set*, fd_set*, struct timeval*)
DECL_REAL(pid_t, waitpid, pid_t, int*, int)
DECL_REAL(int, getloadavg, double*, int)
DECL_REAL(int, rename, const char*, const char*)
DECL_REAL(int, unlink, const char*)
DECL_REAL(int, remove, const char*)
DECL_REAL(int, mkdir, const char*, mode_t)
DECL_REAL(struct dirent*, readdir, DIR*)
DECL_REAL(int, closedir, DIR*)
DECL_REAL(time_t, time, time_t*)
DECL_REAL(int, clock_gettime, clockid_t, struct timespec*)
DECL_REAL(int, gettimeofday, struct timeval*, void*)
DECL_REAL(int, pthread_create, pthread_t*, const pthread_attr_t*, void* (*)(void*), void*)
DECL_REAL(int, pthread_join, pthread_t, void**)

typedef int (*open_fn)(const char*, int, ...);
static open_fn real_open_p, real_open64_p;
extern "C" int __interceptor_open(const char*, int, ...) __attribute__((weak));
extern "C" int __interceptor_open64(const char*, int, ...) __attribute__((weak));
static open_fn R_open() {
    if (!real_open_p) real_open_p = __interceptor_open ? (open_fn)__interceptor_open : (open_fn)dlsym(RTLD_NEXT, "open");
    return real_open_p;
}
static open_fn R_open64() {
    if (!real_open64_p) real_open64_p = __interceptor_open64 ? (open_fn)__interceptor_open64 : (open_fn)dlsym(RTLD_NEXT, "open64");
    return real_open64_p;
}

extern "C" int __real_pthread_mutex_lock(pthread_mutex_t*);
extern "C" int __real_pthread_mutex_unlock(pthread_mutex_t*);
extern "C" int __real_pthread_mutex_trylock(pthread_mutex_t*);

// ---------------------------------------------------------------------------
// small utilities (no C++ containers, no operator new: this file also *is* the allocator)
// ---------------------------------------------------------------------------
struct Rng {
    uint64_t s;
    uint64_t next() {
        uint64_t z = (s += 0x9E3779B97F4A7C15ull);
        z = (z ^ (z >> 30)) * 0xBF58476D1CE4E5B9ull;
        z = (z ^ (z >> 27)) * 0x94D049BB133111EBull;
        return z ^ (z >> 31);
    }
    uint32_t below(uint32_t n) { return n ? (uint32_t)(next() % n) : 0; }
    bool permille(uint32_t p) { return p && below(1000) < p; }
};
static uint64_t mix64(uint64_t a, uint64_t b) { Rng r{a ^ (b * 0xD6E8FEB86659FD93ull)}; r.next(); return r.next(); }

static long futex(int* addr, int op, int val) { return syscall(SYS_futex, addr, op, val, nullptr, nullptr, 0); }

struct Spin {
    std::atomic<int> v{0};
    void lock() { int e = 0; while (!v.compare_exchange_weak(e, 1, std::memory_order_acquire)) { e = 0; sched_yield(); } }
    void unlock() { v.store(0, std::memory_order_release); }
};

enum Role { R_OFF = 0, R_MAIN = 1, R_WORKER = 2 };
static int g_role = R_OFF;        // R_OFF: pass-through
static uint64_t g_seed;
static Rng g_rs;                  // schedule / transport decisions
static Rng g_re;                  // environment (readdir, clock)
static long g_seq;                // global event sequence number
static long g_steps;              // scheduler steps
static long g_maxSteps = 200000;

// ---- plan ------------------------------------------------------------------
enum Strat { ST_RANDOM, ST_PCT, ST_RR, ST_STICKY };
static int p_strat = ST_RANDOM, p_pctDepth = 2, p_pctSteps = 2000;
static char p_roots[8][512]; static int p_nroots;
static int p_chunk;               // split tracked writes into pieces of this size
static long p_crashOp = -1; static int p_crashPrefix; // prefix in permille of the op's byte count
static int p_crashSig = SIGKILL;   // how the run is interrupted at the crash op: SIGKILL, or a catchable signal (SIGTERM/SIGINT/SIGHUP)
static int p_selTimeout, p_waitLag, p_loadavg;
static int p_readdirShuffle, p_dtUnknown;
static long p_clock;              // epoch seconds; 0 = real clock
static long p_clockStep = 137;    // microseconds the simulated clock advances per reading (a slow or a fast machine)
static uint64_t p_alloc;          // allocator seed; 0 = off
static int p_traceSched = 1;
struct DieFault { int worker; long msg; long off; int how; int arg; int fired; };
static DieFault p_die[32]; static int p_ndie;

// ---- trace -------------------------------------------------------------------
static int t_fd = -1;
static char t_buf[1 << 16]; static size_t t_len;
static void t_flush() {
    if (t_fd < 0) { t_len = 0; return; }
    size_t o = 0;
    while (o < t_len) { ssize_t r = syscall(SYS_write, t_fd, t_buf + o, t_len - o); if (r <= 0) break; o += (size_t)r; }
    t_len = 0;
}
static void t_raw(const char* s, size_t n) {
    if (t_fd < 0) return;
    while (n) {
        size_t k = sizeof(t_buf) - t_len; if (k > n) k = n;
        // byte loop on purpose: memcpy is intercepted by ThreadSanitizer, which cannot see that the scheduler
        // serialises the tasks and would report the runtime's own buffer as racy
        volatile char* d = t_buf + t_len; for (size_t i = 0; i < k; i++) d[i] = s[i];
        t_len += k; s += k; n -= k;
        if (t_len == sizeof(t_buf)) t_flush();
    }
}
static void tracef(const char* fmt, ...) __attribute__((format(printf, 1, 2)));
static void tracef(const char* fmt, ...) {
    if (t_fd < 0) return;
    char b[1200]; va_list ap; va_start(ap, fmt); int n = vsnprintf(b, sizeof b, fmt, ap); va_end(ap);
    if (n < 0) return; if ((size_t)n >= sizeof b) n = sizeof b - 1;
    t_raw(b, (size_t)n);
}
static void t_escaped(const unsigned char* s, size_t n) {
    static const char hx[] = "0123456789abcdef";
    for (size_t i = 0; i < n; i++) {
        unsigned char c = s[i];
        if (c > 32 && c < 127 && c != '%') { char ch = (char)c; t_raw(&ch, 1); }
        else { char e[3] = {'%', hx[c >> 4], hx[c & 15]}; t_raw(e, 3); }
    }
}
[[noreturn]] static void sim_die(int code, const char* why) {
    tracef("E %ld %s\n", g_seq++, why); t_flush();
    dprintf(2, "VSIM: %s\n", why);
    syscall(SYS_exit_group, code);
    __builtin_unreachable();
}

// ---------------------------------------------------------------------------
// forward decls
// ---------------------------------------------------------------------------
static void kill_all_workers();
[[noreturn]] static void crash_now();
static const char* rel_under_root(const char* path, char* out, size_t outsz);

// ---------------------------------------------------------------------------
// 3.2 thread scheduler
// ---------------------------------------------------------------------------
enum TState { T_FREE, T_RUNNABLE, T_BLK_MUTEX, T_BLK_JOIN, T_DONE };
struct Task {
    int id; int state; int word; // futex word: 1 = released
    pthread_t th; void* waitMutex; int waitTask; long prio;
    void* (*fn)(void*); void* arg;
};
static const int MAXT = 128;
static Task g_tasks[MAXT]; static int g_ntasks; static int g_live; // live = not DONE
static Spin g_sl;
static __thread Task* tl_self;
static long g_pctChange[8]; static long g_pctLow = -1;
static int g_lastPick = 0;

static inline bool sched_on() { return g_role == R_MAIN && g_ntasks > 0 && g_live > 1; }

static void park(Task* t) {
    for (;;) {
        int w = __atomic_load_n(&t->word, __ATOMIC_ACQUIRE);
        if (w == 1) { __atomic_store_n(&t->word, 0, __ATOMIC_RELAXED); return; }
        futex(&t->word, FUTEX_WAIT_PRIVATE, 0);
    }
}
static void unpark(Task* t) { __atomic_store_n(&t->word, 1, __ATOMIC_RELEASE); futex(&t->word, FUTEX_WAKE_PRIVATE, 1); }

// choose among runnable tasks; returns -1 if none.  Called with g_sl held.
static int pick_next(int self_id, bool selfRunnable) {
    int cand[MAXT], n = 0;
    for (int i = 0; i < g_ntasks; i++) {
        if (g_tasks[i].state == T_RUNNABLE && (i != self_id || selfRunnable)) cand[n++] = i;
    }
    if (n == 0) return -1;
    if (n == 1) return cand[0];
    switch (p_strat) {
    case ST_PCT: {
        for (int k = 0; k < p_pctDepth && k < 8; k++)
            if (g_pctChange[k] == g_steps && self_id >= 0) g_tasks[self_id].prio = g_pctLow--;
        int best = cand[0];
        for (int i = 1; i < n; i++) if (g_tasks[cand[i]].prio > g_tasks[best].prio) best = cand[i];
        return best;
    }
    case ST_RR: {
        for (int i = 0; i < n; i++) if (cand[i] > g_lastPick) return cand[i];
        return cand[0];
    }
    case ST_STICKY:
        if (selfRunnable && !g_rs.permille(120)) return self_id;
        return cand[g_rs.below((uint32_t)n)];
    default:
        return cand[g_rs.below((uint32_t)n)];
    }
}

static void sched_stall(const char* what) {
    kill_all_workers();
    sim_die(98, what);
}

// A scheduling point of the calling task. blockKind==0: task stays runnable.
static void sched_point(const char* kind, int blockState, void* mtx, int joinTask) {
    Task* me = tl_self;
    if (!me) return;
    g_sl.lock();
    if (blockState) {
        // re-check the blocking condition under the lock
        if (blockState == T_BLK_JOIN && g_tasks[joinTask].state == T_DONE) { g_sl.unlock(); return; }
        me->state = blockState; me->waitMutex = mtx; me->waitTask = joinTask;
    }
    g_steps++;
    if (g_steps > g_maxSteps) { g_sl.unlock(); sched_stall("LIVENESS-CAP thread scheduler step cap exceeded"); }
    int nx = pick_next(me->id, blockState == 0);
    if (nx < 0) { g_sl.unlock(); sched_stall("SIM-DEADLOCK no runnable task"); }
    if (p_traceSched) tracef("S %ld %s t%d>t%d\n", g_seq++, kind, me->id, nx);
    g_lastPick = nx;
    g_sl.unlock();
    if (nx != me->id) {
        unpark(&g_tasks[nx]);
        park(me);
    }
}

// The hand-over at the end of a task runs as a pthread key destructor, i.e. after the C++ thread_local destructors of the
// exiting thread: their operator delete calls then still happen while the task holds the baton, in a seeded order, instead
// of concurrently with the next task (which made the heap layout - and with it the allocator probe - timing dependent).
static pthread_key_t g_exitKey; static int g_exitKeyOk;
static void task_finished(void* p) {
    Task* t = (Task*)p;
    g_sl.lock();
    t->state = T_DONE; g_live--;
    for (int i = 0; i < g_ntasks; i++)
        if (g_tasks[i].state == T_BLK_JOIN && g_tasks[i].waitTask == t->id) g_tasks[i].state = T_RUNNABLE;
    g_steps++;
    int nx = pick_next(t->id, false);
    if (p_traceSched) tracef("S %ld exit t%d>t%d\n", g_seq++, t->id, nx);
    g_lastPick = nx;
    g_sl.unlock();
    if (nx < 0) sched_stall("SIM-DEADLOCK no runnable task at thread exit");
    unpark(&g_tasks[nx]);
}
static void* trampoline(void* p) {
    Task* t = (Task*)p;
    tl_self = t;
    park(t);
    void* r = t->fn(t->arg);
    if (g_exitKeyOk && pthread_setspecific(g_exitKey, t) == 0) return r;
    task_finished(t);
    return r;
}

VIS int pthread_create(pthread_t* th, const pthread_attr_t* attr, void* (*fn)(void*), void* arg) {
    if (g_role != R_MAIN) return R_pthread_create()(th, attr, fn, arg);
    g_sl.lock();
    if (g_ntasks == 0) { // register the creating (main) thread as task 0
        if (!g_exitKeyOk && pthread_key_create(&g_exitKey, task_finished) == 0) g_exitKeyOk = 1;
        Task* m = &g_tasks[0]; m->id = 0; m->state = T_RUNNABLE; m->word = 0; m->th = pthread_self(); m->prio = (long)g_rs.below(1000000) + 10;
        tl_self = m; g_ntasks = 1; g_live = 1;
        for (int k = 0; k < 8; k++) g_pctChange[k] = 1 + (long)g_rs.below((uint32_t)p_pctSteps);
    }
    if (!tl_self || g_ntasks >= MAXT) { g_sl.unlock(); return R_pthread_create()(th, attr, fn, arg); }
    Task* t = &g_tasks[g_ntasks];
    t->id = g_ntasks; t->state = T_RUNNABLE; t->word = 0; t->fn = fn; t->arg = arg; t->prio = (long)g_rs.below(1000000) + 10;
    g_ntasks++; g_live++;
    tracef("T %ld create t%d by t%d\n", g_seq++, t->id, tl_self->id);
    g_sl.unlock();
    int r = R_pthread_create()(th, attr, trampoline, t);
    if (r != 0) { g_sl.lock(); t->state = T_DONE; g_live--; g_sl.unlock(); return r; }
    t->th = *th;
    sched_point("create", 0, nullptr, -1);
    return 0;
}

VIS int pthread_join(pthread_t th, void** ret) {
    if (g_role == R_MAIN && tl_self) {
        int target = -1;
        for (int i = 1; i < g_ntasks; i++) if (g_tasks[i].state != T_FREE && pthread_equal(g_tasks[i].th, th)) target = i;
        if (target >= 0 && g_tasks[target].state != T_DONE) sched_point("join", T_BLK_JOIN, nullptr, target);
    }
    return R_pthread_join()(th, ret);
}

// mutex identities in first-use order (informational; not part of the trace hash)
static void* g_mtx[4096]; static int g_nmtx;
static int mtx_id(void* m) {
    for (int i = g_nmtx - 1; i >= 0; i--) if (g_mtx[i] == m) return i;
    if (g_nmtx < 4096) { g_mtx[g_nmtx] = m; return g_nmtx++; }
    return 4095;
}

VIS int __wrap_pthread_mutex_lock(pthread_mutex_t* m) {
    if (!sched_on() || !tl_self) return __real_pthread_mutex_lock(m);
    sched_point("lock", 0, m, -1);
    for (;;) {
        int r = __real_pthread_mutex_trylock(m);
        if (r != EBUSY) return r;
        sched_point("blocked", T_BLK_MUTEX, m, -1);
    }
}
VIS int __wrap_pthread_mutex_trylock(pthread_mutex_t* m) {
    if (!sched_on() || !tl_self) return __real_pthread_mutex_trylock(m);
    sched_point("trylock", 0, m, -1);
    return __real_pthread_mutex_trylock(m);
}
VIS int __wrap_pthread_mutex_unlock(pthread_mutex_t* m) {
    int r = __real_pthread_mutex_unlock(m);
    if (!sched_on() || !tl_self) return r;
    g_sl.lock();
    for (int i = 0; i < g_ntasks; i++)
        if (g_tasks[i].state == T_BLK_MUTEX && g_tasks[i].waitMutex == m) g_tasks[i].state = T_RUNNABLE;
    g_sl.unlock();
    sched_point("unlock", 0, m, -1);
    return r;
}

// ---------------------------------------------------------------------------
// 3.4 file layer: numbered ops on paths under the durable roots, crash injection
// ---------------------------------------------------------------------------
static const int MAXFD = 4096;
struct FdInfo { char used; char writable; char rel[256]; };
static FdInfo* g_fds; // lazily mmap'ed
static long g_ops;    // op counter (main process; workers' ops are numbered by the main process)

static FdInfo* fdinfo(int fd) {
    if (fd < 0 || fd >= MAXFD || !g_fds) return nullptr;
    return g_fds[fd].used ? &g_fds[fd] : nullptr;
}
static void fd_track(int fd, const char* rel, bool writable) {
    if (fd < 0 || fd >= MAXFD) return;
    if (!g_fds) g_fds = (FdInfo*)mmap(nullptr, sizeof(FdInfo) * MAXFD, PROT_READ | PROT_WRITE, MAP_PRIVATE | MAP_ANONYMOUS, -1, 0);
    g_fds[fd].used = 1; g_fds[fd].writable = writable;
    { volatile char* d = g_fds[fd].rel; size_t i = 0; for (; rel[i] && i + 1 < sizeof g_fds[fd].rel; i++) d[i] = rel[i]; d[i] = 0; } // no libc: see t_raw
}
static void fd_untrack(int fd) { if (fd >= 0 && fd < MAXFD && g_fds) g_fds[fd].used = 0; }

static const char* rel_under_root(const char* path, char* out, size_t outsz) {
    if (!path || !p_nroots) return nullptr;
    char abs[1024];
    if (path[0] != '/') {
        char cwd[512]; if (!getcwd(cwd, sizeof cwd)) return nullptr;
        snprintf(abs, sizeof abs, "%s/%s", cwd, path);
    } else snprintf(abs, sizeof abs, "%s", path);
    // lexical normalisation: collapse "//", "/./" and "/x/../"
    char norm[1024]; size_t j = 0;
    for (size_t i = 0; abs[i] && j + 2 < sizeof norm;) {
        if (abs[i] == '/') {
            while (abs[i + 1] == '/') i++;
            if (abs[i + 1] == '.' && (abs[i + 2] == '/' || !abs[i + 2])) { i += 2; continue; }
            if (abs[i + 1] == '.' && abs[i + 2] == '.' && (abs[i + 3] == '/' || !abs[i + 3])) {
                while (j > 0 && norm[j - 1] != '/') j--;
                if (j > 0) j--;
                i += 3; continue;
            }
        }
        norm[j++] = abs[i++];
    }
    if (j == 0) norm[j++] = '/';
    norm[j] = 0;
    for (int r = 0; r < p_nroots; r++) {
        size_t n = strlen(p_roots[r]);
        if (strncmp(norm, p_roots[r], n) == 0 && (norm[n] == '/' || norm[n] == 0)) {
            snprintf(out, outsz, "r%d%s", r, norm + n);
            return out;
        }
    }
    return nullptr;
}

// worker <-> main control protocol ------------------------------------------------
static int w_ctl = -1, w_pipe = -1, w_index = -1;
struct CtlHdr { uint32_t kind; uint32_t len; int32_t a; int32_t b; };
static void xsend(int fd, const void* p, size_t n) {
    const char* c = (const char*)p;
    while (n) { ssize_t r = syscall(SYS_sendto, fd, c, n, MSG_NOSIGNAL, nullptr, 0); if (r <= 0) { if (r < 0 && errno == EINTR) continue; syscall(SYS_exit_group, 96); } c += r; n -= (size_t)r; }
}
static bool xrecv(int fd, void* p, size_t n) {
    char* c = (char*)p;
    while (n) { ssize_t r = syscall(SYS_read, fd, c, n); if (r == 0) return false; if (r < 0) { if (errno == EINTR) continue; return false; } c += r; n -= (size_t)r; }
    return true;
}

// Count one op in the main process; decide whether the run is killed here.
// Returns the number of bytes of this op that are still to be performed before the kill (-1: no crash).
static long op_event(const char* who, const char* kind, const char* rel, long len) {
    long n = ++g_ops;
    tracef("O %ld %ld %s %s %s %ld\n", g_seq++, n, who, kind, rel, len);
    if (n == p_crashOp && p_crashSig != SIGKILL) {
        // "kill <pid>" with a catchable signal, delivered to the main process just before this op. With the default
        // disposition that is the same as a SIGKILL before the op; if the program has installed a handler it goes on
        // running (a graceful shutdown) and whatever it leaves in the build dir is what the next run finds.
        struct sigaction cur; memset(&cur, 0, sizeof cur);
        sigaction(p_crashSig, nullptr, &cur);
        if ((cur.sa_flags & SA_SIGINFO) || (cur.sa_handler != SIG_DFL && cur.sa_handler != SIG_IGN)) {
            tracef("X %ld crash op=%ld interrupt sig=%d handled\n", g_seq++, n, p_crashSig);
            t_flush();
            // directed at the calling thread: the handler has run when the call returns (a process-directed signal could be
            // taken by any parked thread at any later time, which no seed would decide)
            syscall(SYS_tgkill, (pid_t)syscall(SYS_getpid), (pid_t)syscall(SYS_gettid), p_crashSig);
            return -1;
        }
        if (cur.sa_handler == SIG_IGN) { tracef("X %ld crash op=%ld interrupt sig=%d ignored\n", g_seq++, n, p_crashSig); return -1; }
        tracef("X %ld crash op=%ld prefix=0 sig=%d\n", g_seq++, n, p_crashSig);
        t_flush();
        return 0;
    }
    if (n == p_crashOp) {
        long pre = (len > 0) ? (len * p_crashPrefix) / 1000 : 0;
        if (pre > len) pre = len;
        tracef("X %ld crash op=%ld prefix=%ld\n", g_seq++, n, pre);
        t_flush();
        return pre;
    }
    return -1;
}

// An op performed by the calling process. For writes the caller passes a closure-less
// description: (fd, buf, len). Returns true if the caller should perform the op normally.
static bool do_op(const char* kind, const char* rel, long len, int wfd = -1, const void* wbuf = nullptr) {
    if (g_role == R_WORKER) {
        size_t pl = strlen(rel) + 1, kl = strlen(kind) + 1;
        CtlHdr h{'F', (uint32_t)(pl + kl), (int32_t)len, 0};
        xsend(w_ctl, &h, sizeof h); xsend(w_ctl, kind, kl); xsend(w_ctl, rel, pl);
        CtlHdr rep;
        if (!xrecv(w_ctl, &rep, sizeof rep)) syscall(SYS_exit_group, 95);
        if (rep.kind == 'C') { // perform prefix, acknowledge, wait to be killed
            if (wfd >= 0 && rep.a > 0) syscall(SYS_write, wfd, wbuf, (size_t)rep.a);
            CtlHdr a{'A', 0, 0, 0}; xsend(w_ctl, &a, sizeof a);
            for (;;) pause();
        }
        return true; // 'G': perform, then ack (op_done)
    }
    if (tl_self && sched_on()) sched_point("fileop", 0, nullptr, -1);
    const char* who = "main"; char wb[16];
    if (tl_self) { snprintf(wb, sizeof wb, "t%d", tl_self->id); who = wb; }
    long pre = op_event(who, kind, rel, len);
    if (pre >= 0) {
        if (wfd >= 0 && pre > 0) syscall(SYS_write, wfd, wbuf, (size_t)pre);
        crash_now();
    }
    return true;
}
static void op_done() {
    if (g_role == R_WORKER) { CtlHdr a{'A', 0, 0, 0}; xsend(w_ctl, &a, sizeof a); }
}

static ssize_t tracked_write(int fd, FdInfo* fi, const char* buf, size_t n) {
    size_t piece = p_chunk > 0 ? (size_t)p_chunk : n;
    size_t off = 0;
    while (off < n) {
        size_t k = n - off; if (k > piece) k = piece;
        do_op("write", fi->rel, (long)k, fd, buf + off);
        size_t d = 0;
        while (d < k) { ssize_t r = syscall(SYS_write, fd, buf + off + d, k - d); if (r < 0) { if (errno == EINTR) continue; op_done(); return off + d ? (ssize_t)(off + d) : -1; } d += (size_t)r; }
        op_done();
        off += k;
    }
    return (ssize_t)n;
}

static ssize_t worker_pipe_write(const void* buf, size_t n);

VIS ssize_t write(int fd, const void* buf, size_t n) {
    if (g_role == R_OFF) return R_write()(fd, buf, n);
    if (g_role == R_WORKER && fd == w_pipe) return worker_pipe_write(buf, n);
    FdInfo* fi = fdinfo(fd);
    if (fi && fi->writable && n > 0) return tracked_write(fd, fi, (const char*)buf, n);
    return R_write()(fd, buf, n);
}
VIS ssize_t writev(int fd, const struct iovec* iov, int cnt) {
    if (g_role == R_OFF) return R_writev()(fd, iov, cnt);
    FdInfo* fi = fdinfo(fd);
    bool pipe = (g_role == R_WORKER && fd == w_pipe);
    if (!pipe && !(fi && fi->writable)) return R_writev()(fd, iov, cnt);
    size_t tot = 0; for (int i = 0; i < cnt; i++) tot += iov[i].iov_len;
    if (tot == 0) return 0;
    char* flat = (char*)malloc(tot); size_t o = 0;
    for (int i = 0; i < cnt; i++) { memcpy(flat + o, iov[i].iov_base, iov[i].iov_len); o += iov[i].iov_len; }
    ssize_t r = pipe ? worker_pipe_write(flat, tot) : tracked_write(fd, fi, flat, tot);
    free(flat);
    return r;
}

static void after_open(int fd, const char* path, bool writable, bool trunc) {
    (void)trunc;
    char rel[300];
    if (fd < 0 || !rel_under_root(path, rel, sizeof rel)) return;
    fd_track(fd, rel, writable);
}
static void before_open(const char* path, bool writable, bool trunc) {
    char rel[300];
    if (!rel_under_root(path, rel, sizeof rel)) return;
    if (writable) { do_op(trunc ? "opentrunc" : "openw", rel, 0); }
    else if (g_role == R_WORKER || (tl_self && sched_on())) { do_op("openr", rel, 0); }
    else return;
    // note: op_done() is sent by the caller after the real open
}
static bool gated_open(const char* path, bool writable) {
    char rel[300];
    if (!rel_under_root(path, rel, sizeof rel)) return false;
    return writable || g_role == R_WORKER || (tl_self && sched_on());
}

static bool mode_writes(const char* mode, bool* trunc) {
    bool w = false; *trunc = false;
    for (const char* c = mode; *c; c++) { if (*c == 'w') { w = true; *trunc = true; } if (*c == 'a' || *c == '+') w = true; }
    return w;
}
static FILE* fopen_common(fopen_fn real, const char* path, const char* mode) {
    if (g_role == R_OFF || !p_nroots) return real(path, mode);
    bool trunc, w = mode_writes(mode, &trunc);
    bool gated = gated_open(path, w);
    if (gated) before_open(path, w, trunc);
    FILE* f = real(path, mode);
    if (f) after_open(fileno(f), path, w, trunc);
    if (gated) op_done();
    return f;
}
VIS FILE* fopen(const char* path, const char* mode) { return fopen_common(R_fopen(), path, mode); }
VIS FILE* fopen64(const char* path, const char* mode) { return fopen_common(R_fopen64(), path, mode); }

static int open_common(open_fn real, const char* path, int flags, mode_t mode) {
    if (g_role == R_OFF || !p_nroots) return real(path, flags, mode);
    bool w = (flags & O_ACCMODE) != O_RDONLY; bool trunc = (flags & O_TRUNC) != 0;
    bool gated = gated_open(path, w);
    if (gated) before_open(path, w, trunc);
    int fd = real(path, flags, mode);
    if (fd >= 0) after_open(fd, path, w, trunc);
    if (gated) op_done();
    return fd;
}
VIS int open(const char* path, int flags, ...) {
    mode_t mode = 0; if (flags & (O_CREAT | O_TMPFILE)) { va_list ap; va_start(ap, flags); mode = va_arg(ap, mode_t); va_end(ap); }
    return open_common(R_open(), path, flags, mode);
}
VIS int open64(const char* path, int flags, ...) {
    mode_t mode = 0; if (flags & (O_CREAT | O_TMPFILE)) { va_list ap; va_start(ap, flags); mode = va_arg(ap, mode_t); va_end(ap); }
    return open_common(R_open64(), path, flags, mode);
}

static void parent_close_pipe(int fd);
VIS int close(int fd) {
    if (g_role == R_OFF) return R_close()(fd);
    FdInfo* fi = fdinfo(fd);
    if (fi) {
        if (fi->writable) { do_op("close", fi->rel, 0); int r = R_close()(fd); fd_untrack(fd); op_done(); return r; }
        fd_untrack(fd);
    }
    if (g_role == R_MAIN) parent_close_pipe(fd);
    return R_close()(fd);
}
VIS int fclose(FILE* f) {
    if (g_role == R_OFF || !f) return R_fclose()(f);
    int fd = fileno(f);
    FdInfo* fi = fdinfo(fd);
    if (fi && fi->writable) {
        fflush(f);
        do_op("close", fi->rel, 0); fd_untrack(fd); int r = R_fclose()(f); op_done(); return r;
    }
    if (fi) fd_untrack(fd);
    return R_fclose()(f);
}
VIS int rename(const char* a, const char* b) {
    char ra[300], rb[300];
    if (g_role == R_OFF || (!rel_under_root(a, ra, sizeof ra) & !rel_under_root(b, rb, sizeof rb))) return R_rename()(a, b);
    do_op("rename", rel_under_root(b, rb, sizeof rb) ? rb : ra, 0);
    int r = R_rename()(a, b); op_done(); return r;
}
VIS int unlink(const char* a) {
    char ra[300];
    if (g_role == R_OFF || !rel_under_root(a, ra, sizeof ra)) return R_unlink()(a);
    do_op("unlink", ra, 0); int r = R_unlink()(a); op_done(); return r;
}
VIS int remove(const char* a) {
    char ra[300];
    if (g_role == R_OFF || !rel_under_root(a, ra, sizeof ra)) return R_remove()(a);
    do_op("unlink", ra, 0); int r = R_remove()(a); op_done(); return r;
}
VIS int mkdir(const char* a, mode_t m) {
    char ra[300];
    if (g_role == R_OFF || !rel_under_root(a, ra, sizeof ra)) return R_mkdir()(a, m);
    do_op("mkdir", ra, 0); int r = R_mkdir()(a, m); op_done(); return r;
}

// ---------------------------------------------------------------------------
// 3.3 process transport
// ---------------------------------------------------------------------------
enum WState { W_RUNNING, W_PENDING, W_EXITED };
struct Worker {
    pid_t pid; int ctl; int rfd; int state; int status; bool reported; bool rclosed; bool dying;
    // simulated pipe
    unsigned char* buf; size_t bcap, bhead, blen; // ring buffer of PIPE_CAP bytes
    // pending write
    unsigned char* pend; size_t plen, poff;
    // stream parser for fault addressing and message logging
    long msgIdx; long msgOff; int hdrHave; unsigned char hdr[5]; uint32_t msgLen;
    unsigned char* msgBuf; size_t msgBufLen;
};
static const size_t PIPE_CAP = 65536, PIPE_ATOM = 4096;
static Worker g_w[1024]; static int g_nw;
static int g_lastPipe[2] = {-1, -1};
static int g_waitLagRun;
static long g_simClockExtra; // seconds added by simulated select timeouts

static Worker* worker_by_rfd(int fd) {
    for (int i = g_nw - 1; i >= 0; i--) if (g_w[i].rfd == fd && !g_w[i].rclosed) return &g_w[i];
    return nullptr;
}

VIS int pipe(int* fds) {
    int r = R_pipe()(fds);
    if (g_role == R_MAIN && r == 0) { g_lastPipe[0] = fds[0]; g_lastPipe[1] = fds[1]; }
    return r;
}

static void kill_all_workers() {
    if (g_role != R_MAIN) return;
    for (int i = 0; i < g_nw; i++) {
        Worker& w = g_w[i];
        if (w.state != W_EXITED) { kill(w.pid, SIGKILL); int st; R_waitpid()(w.pid, &st, 0); w.state = W_EXITED; w.status = st; }
    }
}
[[noreturn]] static void crash_now() {
    kill_all_workers();
    t_flush();
    syscall(SYS_kill, (pid_t)syscall(SYS_getpid), SIGKILL);
    for (;;) pause();
}

VIS pid_t fork(void) {
    if (g_role != R_MAIN || g_lastPipe[1] < 0 || tl_self) return R_fork()();
    if (g_nw >= 1024) sim_die(99, "SIM-UNSUPPORTED too many workers");
    int sv[2];
    if (socketpair(AF_UNIX, SOCK_STREAM | SOCK_CLOEXEC, 0, sv) != 0) sim_die(99, "SIM socketpair failed");
    t_flush();
    pid_t pid = R_fork()();
    if (pid < 0) { R_close()(sv[0]); R_close()(sv[1]); return pid; }
    if (pid == 0) {
        g_role = R_WORKER; t_fd = -1; t_len = 0;
        w_ctl = sv[1]; w_pipe = g_lastPipe[1]; w_index = g_nw;
        R_close()(sv[0]);
        for (int i = 0; i < g_nw; i++) if (g_w[i].ctl >= 0) R_close()(g_w[i].ctl);
        return 0;
    }
    R_close()(sv[1]);
    Worker& w = g_w[g_nw];
    memset(&w, 0, sizeof w);
    w.pid = pid; w.ctl = sv[0]; w.rfd = g_lastPipe[0]; w.state = W_RUNNING;
    w.buf = (unsigned char*)malloc(PIPE_CAP); w.bcap = PIPE_CAP;
    tracef("P %ld fork w%d\n", g_seq++, g_nw);
    g_nw++;
    g_lastPipe[0] = g_lastPipe[1] = -1;
    return pid;
}

// ---- worker side -----------------------------------------------------------
[[noreturn]] static void worker_die(int how, int arg) {
    if (how == 'S') {
        struct sigaction sa; memset(&sa, 0, sizeof sa); sa.sa_handler = SIG_DFL;
        typedef int (*sa_fn)(int, const struct sigaction*, struct sigaction*);
        sa_fn rsa = (sa_fn)dlsym(RTLD_NEXT, "sigaction");
        if (rsa) rsa(arg, &sa, nullptr);
        sigset_t ss; sigemptyset(&ss); sigaddset(&ss, arg); sigprocmask(SIG_UNBLOCK, &ss, nullptr);
        syscall(SYS_kill, (pid_t)syscall(SYS_getpid), arg);
        for (;;) pause();
    }
    syscall(SYS_exit_group, arg);
    __builtin_unreachable();
}
static ssize_t worker_pipe_write(const void* buf, size_t n) {
    CtlHdr h{'W', (uint32_t)n, 0, 0};
    xsend(w_ctl, &h, sizeof h); xsend(w_ctl, buf, n);
    CtlHdr rep;
    if (!xrecv(w_ctl, &rep, sizeof rep)) syscall(SYS_exit_group, 95);
    if (rep.kind == 'D') worker_die(rep.a, rep.b);
    return (ssize_t)n;
}

// ---- main side -------------------------------------------------------------
static void worker_gone(Worker& w, int idx) {
    int st = 0;
    R_waitpid()(w.pid, &st, 0);
    w.state = W_EXITED; w.status = st;
    if (w.ctl >= 0) { R_close()(w.ctl); w.ctl = -1; }
    free(w.pend); w.pend = nullptr; w.plen = w.poff = 0;
    if (WIFSIGNALED(st)) tracef("P %ld gone w%d signal %d\n", g_seq++, idx, WTERMSIG(st));
    else tracef("P %ld gone w%d exit %d\n", g_seq++, idx, WEXITSTATUS(st));
}
static DieFault* die_due(int idx, Worker& w) {
    for (int i = 0; i < p_ndie; i++) {
        DieFault& d = p_die[i];
        if (d.fired || d.worker != idx) continue;
        if (w.msgIdx > d.msg || (w.msgIdx == d.msg && w.msgOff >= d.off)) return &d;
    }
    return nullptr;
}
static void fire_die(int idx, Worker& w, DieFault* d) {
    d->fired = 1;
    tracef("X %ld die w%d at msg=%ld off=%ld how=%c arg=%d\n", g_seq++, idx, w.msgIdx, w.msgOff, d->how, d->arg);
    CtlHdr rep{'D', 0, d->how, d->arg};
    xsend(w.ctl, &rep, sizeof rep);
    // wait until it is really gone
    char c; while (syscall(SYS_read, w.ctl, &c, 1) > 0) {}
    worker_gone(w, idx);
}
// feed delivered bytes through the stream parser (type:1, len:4, payload)
static void parse_delivered(int idx, Worker& w, const unsigned char* p, size_t n) {
    while (n) {
        if (w.hdrHave < 5) {
            w.hdr[w.hdrHave++] = *p++; n--; w.msgOff++;
            if (w.hdrHave == 5) {
                memcpy(&w.msgLen, w.hdr + 1, 4);
                free(w.msgBuf); w.msgBuf = (unsigned char*)malloc(w.msgLen ? w.msgLen : 1); w.msgBufLen = 0;
            }
            if (w.hdrHave < 5 || w.msgLen > 0) continue;
        } else {
            size_t k = w.msgLen - w.msgBufLen; if (k > n) k = n;
            memcpy(w.msgBuf + w.msgBufLen, p, k); w.msgBufLen += k; p += k; n -= k; w.msgOff += (long)k;
        }
        if (w.hdrHave == 5 && w.msgBufLen == w.msgLen) {
            tracef("M %ld w%d n%ld t%c l%u ", g_seq++, idx, w.msgIdx, w.hdr[0], w.msgLen);
            t_escaped(w.msgBuf, w.msgLen); t_raw("\n", 1);
            w.msgIdx++; w.msgOff = 0; w.hdrHave = 0; w.msgLen = 0; w.msgBufLen = 0;
        }
    }
}
static bool worker_steppable(Worker& w) {
    if (w.state == W_RUNNING) return true;
    if (w.state == W_PENDING) {
        size_t rem = w.plen - w.poff; size_t k = rem < PIPE_ATOM ? rem : PIPE_ATOM;
        if (w.rclosed) return true;
        return w.bcap - w.blen >= k;
    }
    return false;
}
// One step of worker idx: receive its next announcement, or deliver one chunk of its pending write.
static void step_worker(int idx) {
    Worker& w = g_w[idx];
    g_steps++;
    if (g_steps > g_maxSteps) { kill_all_workers(); sim_die(97, "LIVENESS-CAP transport step cap exceeded"); }
    if (w.state == W_RUNNING) {
        CtlHdr h;
        if (!xrecv(w.ctl, &h, sizeof h)) { worker_gone(w, idx); return; }
        if (h.kind == 'F') {
            char kp[700]; if (h.len >= sizeof kp) sim_die(99, "SIM bad F message");
            if (!xrecv(w.ctl, kp, h.len)) { worker_gone(w, idx); return; }
            const char* kind = kp; const char* rel = kp + strlen(kp) + 1;
            char who[16]; snprintf(who, sizeof who, "w%d", idx);
            long pre = op_event(who, kind, rel, h.a);
            if (pre >= 0) {
                CtlHdr rep{'C', 0, (int32_t)pre, 0}; xsend(w.ctl, &rep, sizeof rep);
                CtlHdr ack; xrecv(w.ctl, &ack, sizeof ack);
                crash_now();
            }
            CtlHdr rep{'G', 0, 0, 0}; xsend(w.ctl, &rep, sizeof rep);
            CtlHdr ack; if (!xrecv(w.ctl, &ack, sizeof ack)) { worker_gone(w, idx); return; }
            return;
        }
        if (h.kind != 'W') sim_die(99, "SIM bad control message");
        w.pend = (unsigned char*)malloc(h.len ? h.len : 1); w.plen = h.len; w.poff = 0;
        if (!xrecv(w.ctl, w.pend, h.len)) { worker_gone(w, idx); return; }
        w.state = W_PENDING;
        tracef("P %ld announce w%d write %u\n", g_seq++, idx, h.len);
        if (DieFault* d = die_due(idx, w)) { fire_die(idx, w, d); return; }
        if (!worker_steppable(w)) return; // pipe full: stays pending
    }
    if (w.state == W_PENDING) {
        if (w.rclosed) { // reader closed its end: SIGPIPE
            DieFault d{idx, 0, 0, 'S', SIGPIPE, 0}; fire_die(idx, w, &d); return;
        }
        size_t rem = w.plen - w.poff; size_t k = rem < PIPE_ATOM ? rem : PIPE_ATOM;
        if (w.bcap - w.blen < k) return;
        for (size_t i = 0; i < k; i++) w.buf[(w.bhead + w.blen + i) % w.bcap] = w.pend[w.poff + i];
        w.blen += k;
        parse_delivered(idx, w, w.pend + w.poff, k);
        w.poff += k;
        tracef("P %ld deliver w%d %zu\n", g_seq++, idx, k);
        if (DieFault* d = die_due(idx, w)) { fire_die(idx, w, d); return; }
        if (w.poff == w.plen) {
            free(w.pend); w.pend = nullptr; w.plen = w.poff = 0;
            w.state = W_RUNNING;
            CtlHdr rep{'G', 0, 0, 0}; xsend(w.ctl, &rep, sizeof rep);
        }
    }
}

static void parent_close_pipe(int fd) {
    if (!g_nw) return;
    Worker* w = worker_by_rfd(fd);
    if (w) { w->rclosed = true; tracef("P %ld closepipe w%d\n", g_seq++, (int)(w - g_w)); }
}

VIS ssize_t read(int fd, void* out, size_t n) {
    if (g_role != R_MAIN || !g_nw) return R_read()(fd, out, n);
    Worker* w = worker_by_rfd(fd);
    if (!w) return R_read()(fd, out, n);
    int idx = (int)(w - g_w);
    while (w->blen == 0) {
        if (w->state == W_EXITED) { tracef("P %ld read w%d eof\n", g_seq++, idx); return 0; }
        tracef("P %ld forced w%d\n", g_seq++, idx);
        step_worker(idx);
    }
    size_t k = n < w->blen ? n : w->blen;
    for (size_t i = 0; i < k; i++) ((unsigned char*)out)[i] = w->buf[(w->bhead + i) % w->bcap];
    w->bhead = (w->bhead + k) % w->bcap; w->blen -= k;
    tracef("P %ld read w%d %zu\n", g_seq++, idx, k);
    return (ssize_t)k;
}

VIS int select(int nfds, fd_set* rfds, fd_set* wfds, fd_set* efds, struct timeval* tv) {
    if (g_role != R_MAIN || !g_nw || !rfds) return R_select()(nfds, rfds, wfds, efds, tv);
    int want[1024], nwant = 0;
    for (int i = 0; i < g_nw; i++) if (!g_w[i].rclosed && g_w[i].rfd < nfds && FD_ISSET(g_w[i].rfd, rfds)) want[nwant++] = i;
    if (!nwant) return R_select()(nfds, rfds, wfds, efds, tv);
    for (;;) {
        g_steps++;
        if (g_steps > g_maxSteps) { kill_all_workers(); sim_die(97, "LIVENESS-CAP transport step cap exceeded"); }
        int readable[1024], nr = 0, stepb[1024], ns = 0;
        for (int j = 0; j < nwant; j++) { Worker& w = g_w[want[j]]; if (w.blen > 0 || w.state == W_EXITED) readable[nr++] = want[j]; }
        for (int i = 0; i < g_nw; i++) if (g_w[i].state != W_EXITED && worker_steppable(g_w[i])) stepb[ns++] = i;
        bool ret = false, timeout = false;
        if (nr > 0 && (ns == 0 || g_rs.permille(500))) ret = true;
        else if (nr == 0 && (ns == 0 || g_rs.permille((uint32_t)p_selTimeout))) timeout = true;
        if (ret) {
            FD_ZERO(rfds); if (wfds) FD_ZERO(wfds); if (efds) FD_ZERO(efds);
            int cnt = 0;
            // a seeded non-empty subset of the readable descriptors
            int must = readable[g_rs.below((uint32_t)nr)];
            for (int j = 0; j < nr; j++) {
                if (readable[j] == must || g_rs.permille(500)) { FD_SET(g_w[readable[j]].rfd, rfds); cnt++; }
            }
            tracef("P %ld select ready=%d of %d\n", g_seq++, cnt, nr);
            return cnt;
        }
        if (timeout) {
            FD_ZERO(rfds); if (wfds) FD_ZERO(wfds); if (efds) FD_ZERO(efds);
            g_simClockExtra += tv ? tv->tv_sec : 1;
            tracef("P %ld select timeout\n", g_seq++);
            return 0;
        }
        int idx = stepb[g_rs.below((uint32_t)ns)];
        tracef("P %ld step w%d\n", g_seq++, idx);
        step_worker(idx);
    }
}

VIS pid_t waitpid(pid_t pid, int* st, int opts) {
    if (g_role != R_MAIN || !g_nw || pid > 0) return R_waitpid()(pid, st, opts);
    g_steps++;
    if (g_steps > g_maxSteps) { kill_all_workers(); sim_die(97, "LIVENESS-CAP transport step cap exceeded"); }
    int unrep = 0; for (int i = 0; i < g_nw; i++) if (!g_w[i].reported) unrep++;
    if (!unrep) { errno = ECHILD; return -1; }
    bool nohang = (opts & WNOHANG) != 0;
    if (nohang && g_waitLagRun < 3 && g_rs.permille((uint32_t)p_waitLag)) { g_waitLagRun++; tracef("P %ld waitpid lag\n", g_seq++); return 0; }
    g_waitLagRun = 0;
    for (int attempt = 0;; attempt++) {
        int cand[1024], nc = 0;
        for (int i = 0; i < g_nw; i++) if (!g_w[i].reported && g_w[i].state == W_EXITED) cand[nc++] = i;
        // a worker that has been granted everything it asked for may already have exited: find out
        int run[1024], nrun = 0;
        for (int i = 0; i < g_nw; i++) if (!g_w[i].reported && g_w[i].state == W_RUNNING) run[nrun++] = i;
        if (nc > 0 && (nrun == 0 || attempt > 0 || g_rs.permille(700))) {
            int idx = cand[g_rs.below((uint32_t)nc)];
            g_w[idx].reported = true;
            if (st) *st = g_w[idx].status;
            tracef("P %ld waitpid reap w%d\n", g_seq++, idx);
            return g_w[idx].pid;
        }
        if (nrun > 0 && (attempt == 0 || !nohang)) {
            int idx = run[g_rs.below((uint32_t)nrun)];
            tracef("P %ld waitpid probes w%d\n", g_seq++, idx);
            step_worker(idx);
            continue;
        }
        if (!nohang) { // blocking wait: somebody must make progress
            int any = -1; for (int i = 0; i < g_nw; i++) if (g_w[i].state != W_EXITED && worker_steppable(g_w[i])) { any = i; break; }
            if (any < 0) { kill_all_workers(); sim_die(98, "SIM-DEADLOCK blocking waitpid with no steppable worker"); }
            step_worker(any); continue;
        }
        tracef("P %ld waitpid none\n", g_seq++);
        return 0;
    }
}

VIS int getloadavg(double* out, int n) {
    if (g_role != R_MAIN || !p_loadavg || n < 1) return R_getloadavg()(out, n);
    bool high = g_rs.permille((uint32_t)p_loadavg);
    for (int i = 0; i < n; i++) out[i] = high ? 1000.0 : 0.0;
    tracef("P %ld loadavg %s\n", g_seq++, high ? "high" : "low");
    return n;
}

// ---------------------------------------------------------------------------
// 3.5 environment: readdir, clocks
// ---------------------------------------------------------------------------
struct DirState { DIR* d; struct dirent* ents; int n, pos; };
static DirState g_dirs[64];
VIS struct dirent* readdir(DIR* d) {
    if (g_role == R_OFF || (!p_readdirShuffle && !p_dtUnknown)) return R_readdir()(d);
    DirState* ds = nullptr;
    for (auto& s : g_dirs) if (s.d == d) ds = &s;
    if (!ds) {
        for (auto& s : g_dirs) if (!s.d) { ds = &s; break; }
        if (!ds) return R_readdir()(d);
        ds->d = d; ds->n = 0; ds->pos = 0; int cap = 64; ds->ents = (struct dirent*)malloc(sizeof(struct dirent) * cap);
        while (struct dirent* e = R_readdir()(d)) {
            if (ds->n == cap) { cap *= 2; ds->ents = (struct dirent*)realloc(ds->ents, sizeof(struct dirent) * cap); }
            ds->ents[ds->n] = *e;
            if (p_dtUnknown) ds->ents[ds->n].d_type = DT_UNKNOWN;
            ds->n++;
        }
        // the order the file system happens to return is not a function of the seed: start from the sorted order
        qsort(ds->ents, (size_t)ds->n, sizeof(struct dirent), [](const void* a, const void* b) { return strcmp(((const struct dirent*)a)->d_name, ((const struct dirent*)b)->d_name); });
        if (p_readdirShuffle)
            for (int i = ds->n - 1; i > 0; i--) { int j = (int)g_re.below((uint32_t)i + 1); struct dirent t = ds->ents[i]; ds->ents[i] = ds->ents[j]; ds->ents[j] = t; }
        tracef("V %ld readdir n=%d shuffled=%d dtunknown=%d\n", g_seq++, ds->n, p_readdirShuffle, p_dtUnknown);
    }
    if (ds->pos >= ds->n) return nullptr;
    return &ds->ents[ds->pos++];
}
VIS int closedir(DIR* d) {
    for (auto& s : g_dirs) if (s.d == d) { free(s.ents); s.ents = nullptr; s.d = nullptr; }
    return R_closedir()(d);
}

static long g_clockReads;
static void sim_now(struct timespec* ts) {
    long r = __atomic_add_fetch(&g_clockReads, 1, __ATOMIC_RELAXED);
    // every reading advances time by p_clockStep microseconds (default 137); select timeouts add whole seconds
    long long ns = (long long)r * 1000LL * (long long)p_clockStep;
    ts->tv_sec = p_clock + g_simClockExtra + (time_t)(ns / 1000000000LL);
    ts->tv_nsec = (long)(ns % 1000000000LL);
}
VIS time_t time(time_t* t) {
    if (g_role == R_OFF || !p_clock) return R_time()(t);
    struct timespec ts; sim_now(&ts); if (t) *t = ts.tv_sec; return ts.tv_sec;
}
VIS int clock_gettime(clockid_t c, struct timespec* ts) {
    if (g_role == R_OFF || !p_clock || !ts) return R_clock_gettime()(c, ts);
    if (c == CLOCK_PROCESS_CPUTIME_ID || c == CLOCK_THREAD_CPUTIME_ID) return R_clock_gettime()(c, ts);
    sim_now(ts); return 0;
}
VIS int gettimeofday(struct timeval* tv, void* tz) {
    if (g_role == R_OFF || !p_clock || !tv) return R_gettimeofday()(tv, tz);
    struct timespec ts; sim_now(&ts); tv->tv_sec = ts.tv_sec; tv->tv_usec = ts.tv_nsec / 1000; return 0;
}

// ---------------------------------------------------------------------------
// calls the layer does not model: abort loudly instead of losing control silently
// ---------------------------------------------------------------------------
#define TRAP(name) VIS long vsim_trap_##name() __asm__(#name); \
    long vsim_trap_##name() { sim_die(99, "SIM-UNSUPPORTED " #name); }
// poll() on a modelled result pipe would wait for bytes that never arrive on the real descriptor
extern "C" int __poll(struct pollfd*, unsigned long, int);
VIS int poll(struct pollfd* fds, nfds_t n, int timeout) {
    if (g_role == R_MAIN && g_nw) {
        for (nfds_t i = 0; i < n; i++) if (worker_by_rfd(fds[i].fd)) sim_die(99, "SIM-UNSUPPORTED poll on a worker result pipe");
    }
    return __poll(fds, n, timeout);
}
TRAP(vfork)
TRAP(pselect)
TRAP(ppoll)
TRAP(epoll_create1)
TRAP(eventfd)

// ---------------------------------------------------------------------------
// 3.5 seeded arena allocator (plain variant only): perturbs the relative address
// order of heap objects far more than ASLR does.
// ---------------------------------------------------------------------------
#ifdef VSIM_ALLOC
static const int NARENA = 16, NCLASS = 64; // classes of 16 bytes: up to 1024
static const size_t ARENA_SZ = (size_t)1 << 30; // virtual reservation per arena
struct Arena { char* base; size_t used; void* freel[NCLASS]; };
static Arena g_ar[NARENA]; static char* g_arLo; static char* g_arHi;
static Spin g_al; static Rng g_ra; static int g_allocOn; // 0 unknown, 1 on, -1 off
static long g_allocCount, g_allocFlips; static void* g_allocPrev;
static void alloc_init() {
    const char* e = getenv("VERIF_SIM_ALLOC");
    if (!e || !*e || !strtoull(e, nullptr, 10)) { g_allocOn = -1; return; }
    g_ra.s = mix64(strtoull(e, nullptr, 10), 0xA110C);
    char* m = (char*)mmap(nullptr, ARENA_SZ * NARENA, PROT_READ | PROT_WRITE, MAP_PRIVATE | MAP_ANONYMOUS | MAP_NORESERVE, -1, 0);
    if (m == MAP_FAILED) { g_allocOn = -1; return; }
    g_arLo = m; g_arHi = m + ARENA_SZ * NARENA;
    // arenas in a seeded order so that arena index does not imply address order
    int perm[NARENA]; for (int i = 0; i < NARENA; i++) perm[i] = i;
    for (int i = NARENA - 1; i > 0; i--) { int j = (int)g_ra.below((uint32_t)i + 1); int t = perm[i]; perm[i] = perm[j]; perm[j] = t; }
    for (int i = 0; i < NARENA; i++) { g_ar[i].base = m + ARENA_SZ * (size_t)perm[i]; g_ar[i].used = 0; }
    g_allocOn = 1;
}
static void* sim_alloc(size_t n) {
    if (g_allocOn == 0) { g_al.lock(); if (g_allocOn == 0) alloc_init(); g_al.unlock(); }
    if (g_allocOn < 0 || n > 1024 - 16) { void* p = malloc(n ? n : 1); return p; }
    size_t cls = (n + 16 + 15) / 16; // 16-byte header keeps 16-byte alignment
    g_al.lock();
    Arena& a = g_ar[g_ra.below(NARENA)];
    char* blk;
    if (a.freel[cls - 1] && (g_ra.next() & 3)) { blk = (char*)a.freel[cls - 1]; a.freel[cls - 1] = *(void**)(blk + 16); }
    else { if (a.used + cls * 16 > ARENA_SZ) { g_al.unlock(); return malloc(n); } blk = a.base + a.used; a.used += cls * 16; }
    *(uint64_t*)blk = cls; *(uint64_t*)(blk + 8) = (uint64_t)(&a - g_ar);
    void* p = blk + 16;
    g_allocCount++; if (g_allocPrev && p < g_allocPrev) g_allocFlips++; g_allocPrev = p;
    g_al.unlock();
    return p;
}
static void sim_free(void* p) {
    if (!p) return;
    if (g_allocOn == 1 && (char*)p >= g_arLo && (char*)p < g_arHi) {
        char* blk = (char*)p - 16; uint64_t cls = *(uint64_t*)blk; uint64_t ai = *(uint64_t*)(blk + 8);
        if (cls == 0 || cls > NCLASS || ai >= NARENA) sim_die(99, "SIM allocator header corrupt");
        g_al.lock(); *(void**)(blk + 16) = g_ar[ai].freel[cls - 1]; g_ar[ai].freel[cls - 1] = blk; g_al.unlock();
        return;
    }
    free(p);
}
void* operator new(size_t n) { void* p = sim_alloc(n); if (!p) throw std::bad_alloc(); return p; }
void* operator new[](size_t n) { void* p = sim_alloc(n); if (!p) throw std::bad_alloc(); return p; }
void* operator new(size_t n, const std::nothrow_t&) noexcept { return sim_alloc(n); }
void* operator new[](size_t n, const std::nothrow_t&) noexcept { return sim_alloc(n); }
void operator delete(void* p) noexcept { sim_free(p); }
void operator delete[](void* p) noexcept { sim_free(p); }
void operator delete(void* p, size_t) noexcept { sim_free(p); }
void operator delete[](void* p, size_t) noexcept { sim_free(p); }
void operator delete(void* p, const std::nothrow_t&) noexcept { sim_free(p); }
void operator delete[](void* p, const std::nothrow_t&) noexcept { sim_free(p); }
#endif

// ---------------------------------------------------------------------------
// start-up: read the plan
// ---------------------------------------------------------------------------
static void at_exit_flush() {
    if (g_role == R_MAIN) {
#ifdef VSIM_ALLOC
        if (g_allocOn == 1) tracef("V %ld alloc count=%ld order_flips=%ld\n", g_seq++, g_allocCount, g_allocFlips);
#endif
        tracef("Z %ld end steps=%ld ops=%ld\n", g_seq++, g_steps, g_ops);
        t_flush();
    }
}
static int strat_of(const char* s) {
    if (!strcmp(s, "pct")) return ST_PCT;
    if (!strcmp(s, "rr")) return ST_RR;
    if (!strcmp(s, "sticky")) return ST_STICKY;
    return ST_RANDOM;
}
__attribute__((constructor(200))) static void vsim_init() {
    const char* plan = getenv("VERIF_SIM_PLAN");
    if (!plan || !*plan) return;
    FILE* f = R_fopen()(plan, "r");
    if (!f) { dprintf(2, "VSIM: cannot read plan %s\n", plan); syscall(SYS_exit_group, 99); }
    char line[2048]; char tracePath[1024] = "";
    while (fgets(line, sizeof line, f)) {
        char key[64], val[1600]; val[0] = 0;
        if (sscanf(line, "%63s %1599[^\n]", key, val) < 1 || key[0] == '#') continue;
        if (!strcmp(key, "seed")) g_seed = strtoull(val, nullptr, 10);
        else if (!strcmp(key, "trace")) snprintf(tracePath, sizeof tracePath, "%s", val);
        else if (!strcmp(key, "sched")) p_strat = strat_of(val);
        else if (!strcmp(key, "pct_depth")) p_pctDepth = atoi(val);
        else if (!strcmp(key, "pct_steps")) p_pctSteps = atoi(val) > 0 ? atoi(val) : 1;
        else if (!strcmp(key, "root")) { if (p_nroots < 8) { snprintf(p_roots[p_nroots], sizeof p_roots[0], "%s", val); size_t n = strlen(p_roots[p_nroots]); while (n > 1 && p_roots[p_nroots][n - 1] == '/') p_roots[p_nroots][--n] = 0; p_nroots++; } }
        else if (!strcmp(key, "chunk")) p_chunk = atoi(val);
        else if (!strcmp(key, "crash_op")) p_crashOp = atol(val);
        else if (!strcmp(key, "crash_prefix")) p_crashPrefix = atoi(val);
        else if (!strcmp(key, "crash_sig")) p_crashSig = atoi(val) > 0 ? atoi(val) : SIGKILL;
        else if (!strcmp(key, "sel_timeout")) p_selTimeout = atoi(val);
        else if (!strcmp(key, "wait_lag")) p_waitLag = atoi(val);
        else if (!strcmp(key, "loadavg")) p_loadavg = atoi(val);
        else if (!strcmp(key, "readdir_shuffle")) p_readdirShuffle = atoi(val);
        else if (!strcmp(key, "dt_unknown")) p_dtUnknown = atoi(val);
        else if (!strcmp(key, "clock")) p_clock = atol(val);
        else if (!strcmp(key, "clock_step")) p_clockStep = atol(val) > 0 ? atol(val) : 137;
        else if (!strcmp(key, "max_steps")) g_maxSteps = atol(val);
        else if (!strcmp(key, "trace_sched")) p_traceSched = atoi(val);
        else if (!strcmp(key, "die")) {
            DieFault d{}; char how[16] = "";
            if (sscanf(val, "%d %ld %ld %15s %d", &d.worker, &d.msg, &d.off, how, &d.arg) == 5 && p_ndie < 32) {
                d.how = (how[0] == 's') ? 'S' : 'E'; p_die[p_ndie++] = d;
            }
        }
    }
    R_fclose()(f);
    g_rs.s = mix64(g_seed, 0x5C4ED); g_re.s = mix64(g_seed, 0xE17);
    if (tracePath[0]) t_fd = (int)syscall(SYS_openat, AT_FDCWD, tracePath, O_WRONLY | O_CREAT | O_TRUNC | O_CLOEXEC, 0644);
    g_role = R_MAIN;
    tracef("I %ld seed=%llu strat=%d\n", g_seq++, (unsigned long long)g_seed, p_strat);
    atexit(at_exit_flush);
}
