# Self tests of the machinery.
#   smoke        small determinism check used by setup (every engine family, each scenario executed twice)
#   determinism  the proof demanded before any batch is believed: N seeds per property, each scenario executed twice in
#                different worker pools (16 and 4 workers) and under a different PYTHONHASHSEED in a fresh interpreter;
#                all trace hashes and violation signatures must be pairwise identical.
#   tsan-os      cross-check of the C16 schedule search against unserialised, OS-scheduled TSan runs (never a VIOLATION)
import importlib
import json
import multiprocessing as mp
import os
import subprocess
import sys

from . import core
from .core import mix

ALL = ["c15", "c16", "c17", "c18", "c19", "c20", "c21", "c22", "c24", "c25", "c29", "c34"]


def _one(job):
    mod, seed, i, scratch = job
    from .engine import execute_fresh
    prop = importlib.import_module("sim.props." + mod).PROP
    scn = prop.generate(mix(seed, prop.ID, i), "quick", i)
    out = execute_fresh(prop, scn, scratch, "%s_%d_%d" % (mod, i, os.getpid()))
    if out.error:
        return (mod, i, "ERROR " + out.error, [])
    return (mod, i, out.run_hashes, sorted([v["cls"], v["sig"]] for v in out.violations))


def fingerprints(mods, n, seed, workers):
    scratch = os.path.join(core.scratch_root(), "selftest")
    os.makedirs(scratch, exist_ok=True)
    jobs = [(m, seed, i, scratch) for m in mods for i in range(n)]
    with mp.get_context("fork").Pool(workers) as pool:
        res = pool.map(_one, jobs, chunksize=1)
    core.rmtree(scratch)
    try:
        os.rmdir(core.scratch_root())
    except OSError:
        pass
    return {"%s/%d" % (m, i): [h, v] for m, i, h, v in res}


def smoke():
    core.build(["plain", "asan", "tsan"])
    a = fingerprints(["c18", "c15", "c21", "c16", "c34"], 4, 7, 16)
    b = fingerprints(["c18", "c15", "c21", "c16", "c34"], 4, 7, 5)
    bad = [k for k in a if a[k] != b[k]]
    for k in bad:
        print("NONDETERMINISM %s" % k)
    errs = [k for k in a if isinstance(a[k][0], str)]
    for k in errs:
        print("HARNESS-ERROR in %s: %s" % (k, a[k][0]))
    print("selftest smoke: %s (%d scenarios x2)" % ("FAILED" if bad or errs else "ok", len(a)))
    return 2 if bad or errs else 0


def determinism(mods, n, seed):
    core.build(["plain", "asan", "tsan"])
    a = fingerprints(mods, n, seed, 16)
    b = fingerprints(mods, n, seed, 4)
    # third pass: fresh interpreter with another hash seed
    env = dict(os.environ, PYTHONHASHSEED="12345")
    p = subprocess.run([sys.executable, "-m", "sim.selftest", "fingerprints", ",".join(mods), str(n), str(seed)], cwd=core.VERIF, env=env,
                       stdout=subprocess.PIPE, text=True)
    c = json.loads(p.stdout.strip().split("\n")[-1])
    bad = [k for k in a if not (a[k] == b[k] == c.get(k))]
    for k in bad[:20]:
        print("NONDETERMINISM %s" % k)
    runs = sum(len(v[0]) for v in a.values() if not isinstance(v[0], str))
    print("determinism: %d scenarios (%d simulated runs) x3 passes (16 workers, 4 workers, fresh interpreter with PYTHONHASHSEED=12345): %s" % (
        len(a), runs, "FAILED (%d differ)" % len(bad) if bad else "all trace hashes and violation signatures identical"))
    return 2 if bad else 0


def _tsan_os_one(job):
    seed, i, scratch = job
    from .props import c16
    from . import gen
    from .props.base import STD, exec_args, plan_of, input_args
    prop = c16.PROP
    scn = prop.generate(mix(seed, prop.ID, i), "quick", i)
    wd = os.path.join(scratch, "os%d" % i)
    tree_dir = os.path.join(wd, "tree")
    os.makedirs(tree_dir)
    core.write_tree(tree_dir, gen.join_tree(scn["tree"]))
    oargs = gen.flatten_opts(scn.get("opts", {})) + list(scn.get("suppr", []))
    keys = {"os": set(), "sim": set()}
    for mode in ("os", "sim"):
        for k, run in enumerate(scn["subjects"]):
            b = []
            if scn.get("bd"):
                d = "bd_%s%d" % (mode, k)
                os.makedirs(os.path.join(wd, d))
                b = ["--cppcheck-build-dir=../" + d]
            std = [a for a in STD if a != "-q"] if "--report-progress" in scn.get("opts", {}) else STD
            args = std + oargs + b + exec_args(run) + input_args(scn, scn["units"], tree_dir, wd, "cdb")
            r = core.run_sim("tsan", tree_dir, args, plan=plan_of(run) if mode == "sim" else None, roots=[b[0].split("=", 1)[1]] if b and mode == "sim" else (),
                             workdir=wd, tag="%s%d" % (mode, k), timeout=300)
            for kind, key in c16.tsan_reports(r.stderr):
                keys[mode].add(key)
    core.rmtree(wd)
    return (i, sorted(keys["os"]), sorted(keys["sim"]))


def tsan_os(n, seed):
    """Cross-check of the schedule search (DESIGN.md 6.2): every C16 scenario is also executed with the scheduler off - real,
    OS-scheduled threads under ThreadSanitizer. A race reported there that no seeded, serialised run of the same scenarios
    reports means the schedule search has a gap. This is a self-test of the machinery (exit 2), never a VIOLATION: an
    OS-scheduled report does not replay."""
    core.build(["tsan"])
    scratch = os.path.join(core.scratch_root(), "tsanos")
    os.makedirs(scratch, exist_ok=True)
    with mp.get_context("fork").Pool(8) as pool:
        res = pool.map(_tsan_os_one, [(seed, i, scratch) for i in range(n)], chunksize=1)
    core.rmtree(scratch)
    try:
        os.rmdir(core.scratch_root())
    except OSError:
        pass
    os_keys = set(k for _i, a, _b in res for k in a)
    sim_keys = set(k for _i, _a, b in res for k in b)
    print("tsan-os: %d scenarios; races reported with OS-scheduled threads: %d distinct; under the seeded scheduler: %d distinct" % (n, len(os_keys), len(sim_keys)))
    for k in sorted(os_keys - sim_keys):
        print("  GAP (only OS-scheduled): %s" % k)
    for k in sorted(sim_keys - os_keys):
        print("  only under the seeded scheduler: %s" % k)
    return 2 if os_keys - sim_keys else 0


if __name__ == "__main__":
    cmd = sys.argv[1] if len(sys.argv) > 1 else "smoke"
    if cmd == "smoke":
        sys.exit(smoke())
    if cmd == "fingerprints":
        print(json.dumps(fingerprints(sys.argv[2].split(","), int(sys.argv[3]), int(sys.argv[4]), 8)))
        sys.exit(0)
    if cmd == "tsan-os":
        sys.exit(tsan_os(int(sys.argv[2]) if len(sys.argv) > 2 else 60, int(sys.argv[3]) if len(sys.argv) > 3 else 1))
    if cmd == "determinism":
        mods = sys.argv[2].split(",") if len(sys.argv) > 2 and sys.argv[2] != "all" else ALL
        sys.exit(determinism(mods, int(sys.argv[3]) if len(sys.argv) > 3 else 40, int(sys.argv[4]) if len(sys.argv) > 4 else 11))
