# Self tests of the machinery: determinism proof (same seed twice -> identical traces and outputs).
import os
import sys

from . import core
from .core import mix


def smoke(n=24):
    """Small determinism smoke used by setup: every claimed engine, each scenario executed twice."""
    import importlib
    bad = 0
    scratch = os.path.join(core.scratch_root(), "selftest")
    for mod in ("c18", "c15", "c21"):
        try:
            prop = importlib.import_module("sim.props." + mod).PROP
        except ImportError:
            continue
        from .engine import execute_fresh
        for i in range(n // 3):
            scn = prop.generate(mix(7, prop.ID, i), "quick", i)
            a = execute_fresh(prop, scn, scratch, "a%d" % i)
            b = execute_fresh(prop, scn, scratch, "b%d" % i)
            if a.run_hashes != b.run_hashes or [v["sig"] for v in a.violations] != [v["sig"] for v in b.violations]:
                print("NONDETERMINISM %s scenario %d" % (prop.ID, i))
                bad += 1
    core.rmtree(scratch)
    try:
        os.rmdir(core.scratch_root())
    except OSError:
        pass
    print("selftest smoke: %s" % ("FAILED" if bad else "ok"))
    return 2 if bad else 0


if __name__ == "__main__":
    cmd = sys.argv[1] if len(sys.argv) > 1 else "smoke"
    if cmd == "smoke":
        sys.exit(smoke())
