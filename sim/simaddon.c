int main(){return 0;}
