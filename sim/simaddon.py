#!/usr/bin/python3
# simaddon: the second party of C34 (DESIGN.md 3.6). A stub for an addon executable: invoked by the real cppcheck
# through popen as  simaddon.py --cli --name=<addon> [--ctu] <dumpfile | --file-list <list>>, it plays the script
# the plan (VERIF_ADDON_PLAN, JSON) holds for (addon, dump basename): prints the given bytes, then exits with the
# given status or raises the given signal. In the whole-program invocation it echoes the summaries it was handed.
import json, os, signal, sys

def main():
    args = sys.argv[1:]
    name, files, ctu = "addon", [], False
    i = 0
    while i < len(args):
        a = args[i]
        if a.startswith("--name="):
            name = a[7:]
        elif a == "--file-list":
            i += 1
            with open(args[i]) as f:
                files += [l.strip() for l in f if l.strip()]
        elif a.startswith("--"):
            pass
        else:
            files.append(a)
        i += 1
    plan = {}
    p = os.environ.get("VERIF_ADDON_PLAN")
    if p and os.path.exists(p):
        with open(p) as f:
            plan = json.load(f)
    out = sys.stdout.buffer
    if files and files[0].endswith(".ctu-info"):
        sc = plan.get(name, {}).get("*ctu*", {"lines": [], "exit": 0})
        # echo every summary handed over: closes the loop on "summaries reach whole-program analysis"
        nsum = 0
        for fn in files:
            try:
                with open(fn, "rb") as f:
                    data = f.read().decode("utf-8", "replace")
            except OSError:
                continue
            for line in data.split("\n"):
                line = line.strip()
                if not line:
                    continue
                try:
                    o = json.loads(line)
                except ValueError:
                    continue
                if isinstance(o, dict) and "summary" in o and sc.get("echo", True):
                    nsum += 1
                    msg = "summary-seen " + json.dumps(o, sort_keys=True)
                    out.write((json.dumps({"file": "ctu", "linenr": 1, "column": 1, "severity": "error", "message": msg, "addon": name, "errorId": "echo"}) + "\n").encode())
        if sc.get("echo", True):
            # identical summaries of different units echo identically (and cppcheck reports identical findings once): count them
            out.write((json.dumps({"file": "ctu", "linenr": 2, "column": 1, "severity": "error", "message": "summary-count %d" % nsum, "addon": name, "errorId": "count"}) + "\n").encode())
    else:
        # the dump file name depends on pid / build dir: identify the unit by the dump's own first <file> entry
        base = ""
        try:
            import re
            with open(files[0], "rb") as f:
                head = f.read(20000).decode("utf-8", "replace")
            m = re.search(r'<file index="0" name="([^"]*)"', head)
            if m:
                base = m.group(1)
        except (OSError, IndexError):
            pass
        sc = plan.get(name, {}).get(base, {"lines": [], "exit": 0})
    for l in sc.get("lines", []):
        out.write(l.encode("utf-8", "surrogateescape") + b"\n")
    if sc.get("tail"):
        out.write(sc["tail"].encode("utf-8", "surrogateescape"))   # stop mid-line: no newline
    out.flush()
    if sc.get("signal"):
        signal.signal(sc["signal"], signal.SIG_DFL)
        os.kill(os.getpid(), sc["signal"])
    sys.exit(sc.get("exit", 0))

main()
