#!/usr/bin/python3
# usage: tools/agent_prompt.py <PROPERTY-ID> <worktree> [<hint to steer away from earlier seeded changes>]
# Prints the brief given to a fresh sub-agent that is asked for a seeded change: only the text of the property and its own
# scratch worktree, nothing from /verif.
import json
import sys

pid, wt = sys.argv[1], sys.argv[2]
avoid = sys.argv[3] if len(sys.argv) > 3 else ""
prop = None
for l in open("/verif/properties.jsonl"):
    p = json.loads(l)
    if p["id"] == pid:
        prop = p
a = prop["anchors"]
mech = "\n".join("  - %s (%s)" % (m["name"], m["where"]) for m in a.get("mechanism", []))
print("""You are helping to evaluate how well a verification effort can detect regressions in the open-source C/C++ static analyzer cppcheck (danmar/cppcheck). Your job is to play the part of a developer who introduces a realistic, subtle regression.

Your private scratch git worktree of the repository is {wt} (a detached checkout; ./cppcheck and ./testrunner are already built there; run `{wt}/BUILD.sh cppcheck testrunner` to rebuild after an edit - it takes seconds to a couple of minutes). Work ONLY inside {wt} (and throw-away files under /tmp/{tag}-*). Do not read, list or touch /verif or /repo, and do not use the network (there is none).

The property to break:

  Title: {title}
  Statement: {stmt}
  Scope: {quant}
  Code the property is anchored in: {files}
{mech}

Task: make ONE change to the cppcheck sources in {wt} (lib/, cli/, frontend/ - not tests, not the build system) that
  1. still compiles,
  2. still passes the repository's own unit tests: `cd {wt} && ./testrunner -q` must exit 0 with the change (run it; it takes 1-3 minutes),
  3. breaks the property above, and
  4. does NOT show up in ordinary use at once: it must need something specific to manifest - a particular interleaving of threads/processes, a crash or kill at a particular point, a multi-step sequence of runs/edits, an unusual-but-legal input or option combination, or two cooperating code sites that each look fine alone. A plain revert of a recent fix commit (see `git log`) is not interesting; neither is a change that breaks the property for every input.
  Make it look like something a maintainer could plausibly write (a refactoring, an optimisation, a clean-up, a small feature) - keep it small (typically 1-30 changed lines). {avoid}

Deliverables, all under {wt}/OUT/:
  - patch.diff : `git -C {wt} diff > {wt}/OUT/patch.diff` (sources only; must apply to a clean checkout with `git apply`).
  - demo.sh : a self-contained bash script (it may use helper files you also put in OUT/, e.g. a small C shim or python script) that uses {wt}/cppcheck (resolve it relative to the script: the directory above OUT/) and exits NON-ZERO when the property is visibly violated and exits 0 when it holds. It must FAIL (non-zero) with your change and PASS (0) without it: verify both yourself (`git stash`/`git apply -R`, rebuild, run, re-apply, rebuild). It must be deterministic, finish in under 2 minutes, and clean up its temporary files. If the manifestation needs a fault or a particular schedule (e.g. killing a process at some point, delaying a worker), the demo has to produce that itself (LD_PRELOAD shim, signals, ptrace-free tricks, repeated runs with sleeps are all fine as long as the result is reliable).
  - notes.md : what the change is, which clause of the property it breaks, exactly what is needed for it to manifest, and what you ran with the results (unit tests, demo with and without the change).

When you are done leave the worktree with the change applied and built. Report briefly: the idea, files changed, what it needs to manifest, and the results of the three verifications (testrunner with change, demo with change, demo without change).""".format(
    wt=wt, tag=wt.rstrip("/").split("/")[-1], title=prop["title"], stmt=prop["statement"], quant=prop["quantifier"]["text"],
    files=", ".join(a.get("files", [])), mech=mech, avoid=avoid))
