#!/bin/bash
# usage: tools/confirm_seeded.sh <worktree> <seed-id> <PROPERTY>
# Confirms a sub-agent's seeded change in its scratch worktree: (1) with the change the code builds and the repository's
# own unit tests pass, (2) its demonstration fails with the change and (3) passes without it. On success copies
# patch.diff, the demonstration and a meta.json skeleton to /verif/seeded/<seed-id>/.
set -u
wt=$1; id=$2; prop=$3
cd "$wt" || exit 2
[ -f OUT/patch.diff ] && [ -f OUT/demo.sh ] || { echo "missing deliverables"; exit 2; }
log=/tmp/confirm_$id.log; : > $log
git checkout -q -- . ; git apply OUT/patch.diff || { echo "patch does not apply to a clean worktree"; exit 1; }
echo "[1] build with change"; ./BUILD.sh testrunner cppcheck >> $log 2>&1 || { echo "BUILD FAILED"; exit 1; }
echo "[1] unit tests with change"; ./testrunner -q > /tmp/confirm_${id}_tests.log 2>&1; trc=$?
tail -3 /tmp/confirm_${id}_tests.log
[ $trc -eq 0 ] || { echo "TESTS FAIL WITH CHANGE (rc=$trc)"; exit 1; }
echo "[2] demo with change (must fail)"; (bash OUT/demo.sh > /tmp/confirm_${id}_demo_with.log 2>&1); d1=$?
echo "    demo rc=$d1"
git apply -R OUT/patch.diff
echo "[3] rebuild without change"; ./BUILD.sh cppcheck >> $log 2>&1 || { echo "BUILD FAILED (baseline)"; exit 1; }
(bash OUT/demo.sh > /tmp/confirm_${id}_demo_without.log 2>&1); d2=$?
echo "    demo without change rc=$d2"
git apply OUT/patch.diff
if [ $d1 -ne 0 ] && [ $d2 -eq 0 ]; then
  dst=/verif/seeded/$id; mkdir -p $dst
  cp OUT/patch.diff OUT/demo.sh $dst/; for f in OUT/*.c OUT/*.py OUT/*.sh OUT/notes.md; do [ -f "$f" ] && cp "$f" $dst/; done
  cat > $dst/meta.json <<EOM
{"id": "$id", "property": "$prop", "confirmed": {"builds": true, "unit_tests_with_change": "testrunner -q exit 0", "demo_with_change_rc": $d1, "demo_without_change_rc": $d2},
 "needs_to_manifest": "see notes.md", "detected_by": "TO BE FILLED"}
EOM
  echo "CONFIRMED -> $dst"
else
  echo "NOT CONFIRMED (demo with=$d1 without=$d2)"; exit 1
fi
