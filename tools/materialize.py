#!/usr/bin/python3
# usage: tools/materialize.py <replay.json> <dir>  - writes the scenario's initial tree for hand experiments
import json, os, sys
sys.path.insert(0, os.path.dirname(os.path.dirname(os.path.abspath(__file__))))
from sim import core, gen
rep = json.load(open(sys.argv[1]))
core.write_tree(sys.argv[2], gen.join_tree(rep["scenario"]["tree"]))
print(json.dumps(rep.get("described"), indent=1))
