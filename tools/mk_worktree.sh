#!/bin/bash
# usage: tools/mk_worktree.sh <dir>
# Creates a scratch git worktree of /repo's HEAD for a sub-agent (outside /repo and /verif) and pre-builds ./cppcheck and
# ./testrunner in it through a shared compiler cache, so that the agent's own rebuilds only recompile what it touches.
# Nothing from /verif is copied into the worktree.
set -eu
wt=$1
export CCACHE_DIR=/tmp/ccache-wt CCACHE_NOHASHDIR=1 CCACHE_BASEDIR="$wt"
git -C /repo worktree add --detach "$wt" HEAD >/dev/null
cd "$wt"
mkdir -p OUT
cat > BUILD.sh <<'EOF'
#!/bin/bash
# rebuilds ./cppcheck and ./testrunner of this worktree (shared compiler cache; a few seconds after a small edit)
cd "$(dirname "$0")"
export CCACHE_DIR=/tmp/ccache-wt CCACHE_NOHASHDIR=1 CCACHE_BASEDIR="$PWD"
exec make -j8 CXX="ccache g++" CXXFLAGS="-O1 -g0 -w" "${@:-cppcheck}"
EOF
chmod +x BUILD.sh
./BUILD.sh cppcheck testrunner > build.log 2>&1 || { tail -20 build.log; exit 1; }
echo "worktree $wt ready"
