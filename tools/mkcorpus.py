#!/usr/bin/python3
# usage: tools/mkcorpus.py   - (development time) extracts self-contained top-level functions from cppcheck's own library
# tests (test/cfg/std.c, std.cpp) into sim/corpus.json. The generators use them as additional, much more varied unit
# material (hundreds of library calls, containers, format strings, inline suppressions) than the hand-written atoms; the
# corpus is a committed file, so scenario generation never depends on the state of /repo.
import json, os, re, sys
VERIF = os.path.dirname(os.path.dirname(os.path.abspath(__file__)))
SRC = {"c": "/repo/test/cfg/std.c", "cpp": "/repo/test/cfg/std.cpp"}
out = {}
for lang, path in SRC.items():
    lines = open(path, encoding="utf-8", errors="replace").read().split("\n")
    prelude, blocks, i = [], [], 0
    # prelude: everything up to the first function (includes, defines)
    while i < len(lines) and not re.match(r"^[A-Za-z_].*\)\s*(\{|$)", lines[i]):
        if lines[i].startswith("#") or lines[i].startswith("//") or not lines[i].strip():
            prelude.append(lines[i])
        i += 1
    while i < len(lines):
        l = lines[i]
        if re.match(r"^[A-Za-z_][^;]*\)\s*(const\s*)?(\{)?\s*$", l) and not l.startswith("#"):
            j = i
            depth, seen = 0, False
            while j < len(lines):
                depth += lines[j].count("{") - lines[j].count("}")
                seen = seen or "{" in lines[j]
                if seen and depth == 0:
                    break
                j += 1
            blk = lines[i:j + 1]
            text = "\n".join(blk)
            if 3 <= len(blk) <= 40 and text.count("{") == text.count("}") and "#if" not in text and "#endif" not in text and "#else" not in text and "__" not in text.split("(")[0]:
                blocks.append(text)
            i = j + 1
        else:
            i += 1
    prelude = [p for p in prelude if p.startswith("#include") or p.startswith("#define")]
    # keep every block whose function name is unique
    names, uniq = set(), []
    for b in blocks:
        m = re.match(r"^.*?([A-Za-z_]\w*)\s*\(", b.split("\n")[0])
        if m and m.group(1) not in names:
            names.add(m.group(1)); uniq.append(b)
    step = max(1, len(uniq) // 350)
    out[lang] = {"prelude": "\n".join(prelude), "blocks": uniq[::step]}
    print(lang, "blocks:", len(blocks), "unique:", len(uniq), "kept:", len(out[lang]["blocks"]), "prelude lines:", len(prelude))
json.dump(out, open(os.path.join(VERIF, "sim", "corpus.json"), "w"), indent=0)
