#!/usr/bin/python3
# Regenerates /verif/MANIFEST.json from the table below (keeps it valid and in one place).
import json
import os
import subprocess

VERIF = os.path.dirname(os.path.dirname(os.path.abspath(__file__)))

NA = {
 "C01": "soundness of value-flow facts quantifies over programs and their executions only; no schedule, fault, crash point or history to simulate (needs an executing oracle, i.e. differential testing)",
 "C02": "container-size facts: pure function of the input program; no schedule/fault/history",
 "C03": "always-true/false verdicts: pure function of the input program; no schedule/fault/history",
 "C04": "true-positive runtime-error findings: pure in the input program; decided by executing generated programs, not by simulation",
 "C05": "metamorphic relation between two input programs; nothing for a scheduler or fault injector to decide",
 "C06": "typedef/alias/macro/template transparency: relation between input program pairs; pure",
 "C07": "AST shape is a pure function of the token sequence",
 "C08": "name resolution vs a reference front end over programs; pure",
 "C09": "expression types per platform; pure function of program and platform",
 "C10": "literal/constant evaluation per platform; pure",
 "C11": "preprocessor equivalence over sources and -D/-U/-I; pure (no ordering, fault or history quantified)",
 "C12": "configuration enumeration is a pure function of conditional structure and options",
 "C13": "crash/hang freedom over all byte strings is fuzzing over inputs; no schedule/fault dimension in the quantifier",
 "C14": "dump integrity is an invariant of a single deterministic output; pure",
 "C23": "suppression matching semantics over (finding, suppression) pairs; pure",
 "C26": "output-format fidelity over finding sets and templates; pure",
 "C27": "monotonic gating is a relation between option sets on one input; pure",
 "C28": "--errorlist id coverage; pure",
 "C30": "library configuration semantics; pure",
 "C31": "file selection / path matching over trees and patterns; pure. Its enumeration-order clause is exercised by C29's shuffled readdir layer",
 "C32": "compile_commands.json import; pure parsing",
 "C33": "match-compiler equivalence over patterns and token lists; pure",
 "C35": "clang-AST import consistency over programs; external clang is deterministic tooling, not a faulty party in the statement",
 "C36": "cppcheck-htmlreport over XML files; pure single-threaded Python",
}

PENDING = {}

TRUST = ("trusted: Linux pipe/fork/waitpid semantics as modelled in sim/rt/vsim.cpp (4096-byte atomic writes, 64KiB capacity, EOF on "
         "last close), libstdc++ filebuf behaviour, the Python XML parser and the canonicalisation of findings; the reference of every "
         "differential oracle is the same binary in the nondeterminism-free configuration (a defect present in both is invisible); "
         "the search samples - a clean batch is evidence, not proof")

CHECKS = {
 "C29": ("envsim", "exploration", "6.11",
         "the same project and options run under 3-4 environment seeds (seeded arena allocator changing heap address order, seeded readdir permutation and DT_UNKNOWN, simulated clock epoch and rate, environment variables; path names differing in case only or around separators): byte-identical text/XML output and exit status, dump files identical up to id renaming, equal finding multisets for -jN",
         "deterministic simulation: seeded environment perturbation (heap layout, directory order, clock, environment), output-equality oracle"),
 "C34": ("addonsim", "exploration", "6.12",
         "stub addon executables playing seeded scripts (well-formed findings, summaries, metrics, malformed JSON, wrong types, failing exit codes, signals, partial lines) per unit and in the whole-program phase, under all executors, with and without build dir, optionally a second phase on the same build dir after editing units (new scripts), AddressSanitizer build; reference model of the relaying rules",
         "deterministic simulation with fault injection: scripted faulty second party (addon process), reference model + crash/sanitizer oracle"),
 "C16": ("execsim+tsan", "exploration", "6.2",
         "ThreadSanitizer build of the real CLI under the seeded thread scheduler (handoff invisible to TSan); option sets touching every shared object of the thread executor; any race report is a violation",
         "deterministic simulation: seeded thread schedules with ThreadSanitizer as the invariant checker"),
 "C17": ("histsim", "exploration", "6.3",
         "each unit alone (fresh process = stateless reference model) vs permutations of the file list with one reused analyzer object and vs the thread executor; per-unit findings as multisets, header findings as sets",
         "deterministic simulation: seeded file-order histories of one long-lived analyzer object, reference = fresh process per file"),
 "C24": ("execsim+model", "exploration", "6.9",
         "generated suppression sets; unmatchedSuppression reports compared across executors/schedules and against a reference model of the documented matching rules fed with the raw findings",
         "deterministic simulation: seeded schedules + executable reference model of unmatched-suppression reporting"),
 "C25": ("invariant", "exploration", "6.10",
         "exit-status invariant evaluated on every simulated run: all executors and schedules, cold and cached build dirs, whole-program-only and unmatched-only runs, injected worker deaths, exitcode-suppressions (random, or derived from a probing run so that they cover all / all but one reported finding), invalid command lines",
         "deterministic simulation: invariant over simulated runs (schedules, cache states, injected worker deaths)"),
 "C15": ("execsim", "exploration", "6.1",
         "generated projects analysed by -j1 and by 2-5 runs under the seeded thread scheduler / process transport (schedules, select subsets/timeouts, waitpid lag, load-average stalls, payload chunking), input as file list or generated compile database, with and without --safety and suppressed critical errors; findings, unmatchedSuppression reports and exit status compared",
         "deterministic simulation: seeded thread schedules and worker-process transport, differential oracle vs -j1"),
 "C21": ("execsim+crash", "fault_enumeration", "6.7",
         "worker-death verdicts (signals, _exit codes) injected at the chunk boundaries of every worker's message stream, single and multiple victims, file-list and compile-database input, with and without build dir; termination, exit status, internal error per victim and an exact prediction of the reported findings from the transport trace",
         "deterministic simulation with fault injection: enumeration of worker death points in the process executor's transport, trace-based prediction oracle"),
 "C18": ("buildsim", "exploration", "6.4",
         "seeded histories of edits (token, line/column shift, comment-only incl. inline suppressions that move no token, header, computed include, add/remove/move/swap) and runs (all three executors under seeded schedules, file list or compile database) against one build dir; every run compared with a fresh no-build-dir run",
         "deterministic simulation: seeded edit/run histories against one build dir, differential oracle vs fresh run"),
 "C19": ("buildsim", "exploration", "6.5",
         "seeded histories of option sets over option-sensitive projects sharing one build dir; every run compared with a fresh run with the same options",
         "deterministic simulation: seeded option-change histories against one build dir, differential oracle vs fresh run"),
 "C20": ("buildsim+crash", "fault_enumeration", "6.6",
         "kill points enumerated over the numbered build-dir ops of a victim run (SIGKILL with byte-prefix tears and seeded write chunking, or SIGTERM/SIGINT/SIGHUP delivered to the process at the op; all executors), recovery run compared with a fresh run",
         "deterministic simulation with fault injection: enumeration of kill points (process killed at op k with byte prefix) then recovery run vs fresh run"),
 "C22": ("buildsim", "exploration", "6.8",
         "generated cross-unit programs analysed in memory, from a build dir twice with one job, and with thread/process executors under seeded schedules; whole-program findings compared",
         "deterministic simulation: storage/scheduling modes of whole-program summaries under seeded schedules, differential oracle vs in-memory run"),
}


def main():
    hooks_commits = []
    m = {
        "version": 1,
        "setup_cmd": "checks/setup",
        "hooks": {"guard": "DANMAR_CPPCHECK_VERIF",
                  "enable": "checks compile /repo's working tree with -DDANMAR_CPPCHECK_VERIF into /verif/build/<variant>/ and link sim/rt/vsim.cpp (make -C sim VARIANT=plain|asan|tsan); no hook in /repo is needed: the seams are the process's own libc/pthread interface",
                  "baseline_off_cmd": "cmake --build /repo/_build -j16 && ctest --test-dir /repo/_build -j8 --timeout 900",
                  "source_commits": hooks_commits, "add_only": True},
        "engines": [
            {"name": "libverifsim", "path": "sim/rt/vsim.cpp", "serves_properties": sorted(CHECKS),
             "kind_free_text": "in-process simulator linked into the real cppcheck CLI: seeded thread scheduler (parks real threads at every mutex/join/create/file-op), forked-worker transport (gated pipe writes, modelled pipe, select/waitpid/loadavg outcomes, worker death verdicts), build-dir file layer with numbered ops and kill injection, readdir/clock/allocator layer"},
            {"name": "harness", "path": "sim/", "serves_properties": sorted(CHECKS),
             "kind_free_text": "python3 stdlib harness: seeded scenario generators, plan writer, runner, oracles over the recorded history, delta-debugging shrinker, replay files, violation gate (re-run + fresh-process replay), evidence writer"},
        ],
        "checks": [],
        "notes": "Technique: deterministic simulation with fault injection (DESIGN.md). One integer (VERIF_SEED) decides scenarios, schedules and faults. known_findings.json lists genuine defects (fixed by 'fix:' commits in /repo, or recorded as known).",
        "not_applicable": [{"property_id": k, "reason": v} for k, v in sorted(list(NA.items()) + list(PENDING.items())) if k not in CHECKS],
    }
    for pid in sorted(CHECKS):
        eng, level, ref, text, tech = CHECKS[pid]
        m["checks"].append({
            "property_id": pid,
            "quick_cmd": "checks/run %s quick" % pid,
            "thorough_cmd": "checks/run %s thorough" % pid,
            "evidence_file": "evidence/%s.json" % pid,
            "replay_cmd_template": "checks/run %s --replay {path}" % pid,
            "engine": eng,
            "level_claimed": {"category": level, "text": text, "design_ref": "DESIGN.md section " + ref},
            "level_note": TRUST,
            "technique": tech,
        })
    with open(os.path.join(VERIF, "MANIFEST.json"), "w") as f:
        json.dump(m, f, indent=1)
    print("MANIFEST.json written: %d checks, %d not applicable" % (len(m["checks"]), len(m["not_applicable"])))


if __name__ == "__main__":
    main()
