#!/usr/bin/python3
# Sensitivity self-test (DESIGN.md section 4 "Sensitivity is proven too"): textual mutations, one at a time, of a scratch
# worktree of /repo's HEAD (/tmp/vw-m; /repo itself is not touched); each must be caught by the quick check of the property
# it breaks. Build output goes to /tmp/vb-m, evidence/replays to /tmp/vo-m.
# usage: tools/mutants.py [name-substring ...]      results -> /verif/mutants_result.json
import json
import os
import subprocess
import sys
import time

REPO = "/tmp/vw-m"
VERIF = os.path.dirname(os.path.dirname(os.path.abspath(__file__)))

# (name, file, old, new, [checks expected to catch it])
M = [
 # ---- C19: drop one ingredient of the cache key at a time
 ("hash-no-severity-warning", "lib/cppcheck.cpp", "    toolinfo << (mSettings.severity.isEnabled(Severity::warning) ? 'w' : ' ');\n", "", ["C19"]),
 ("hash-no-severity-style", "lib/cppcheck.cpp", "    toolinfo << (mSettings.severity.isEnabled(Severity::style) ? 's' : ' ');\n", "", ["C19"]),
 ("hash-no-severity-information", "lib/cppcheck.cpp", "    toolinfo << (mSettings.severity.isEnabled(Severity::information) ? 'i' : ' ');\n", "", ["C19"]),
 ("hash-no-userDefines", "lib/cppcheck.cpp", "    toolinfo << mSettings.userDefines;\n", "", ["C19"]),
 ("hash-no-force", "lib/cppcheck.cpp", "    toolinfo << (mSettings.force ? 'f' : ' ');\n", "", ["C19"]),
 ("hash-no-maxConfigs", "lib/cppcheck.cpp", "    toolinfo << mSettings.maxConfigsOption;\n", "", ["C19"]),
 ("hash-no-checkLevel", "lib/cppcheck.cpp", "    toolinfo << std::to_string(static_cast<std::uint8_t>(mSettings.checkLevel));\n", "", ["C19"]),
 ("hash-no-suppressions", "lib/cppcheck.cpp", "    mSuppressions.nomsg.dump(toolinfo, filePath);\n", "", ["C19", "C18"]),
 ("hash-no-certainty", "lib/cppcheck.cpp", "    toolinfo << ' ' << mSettings.certainty.intValue();\n", "", ["C19"]),
 ("hash-no-checks", "lib/cppcheck.cpp", "    toolinfo << ' ' << mSettings.checks.intValue();\n", "", ["C19"]),
 ("hash-no-undefs", "lib/cppcheck.cpp", "        toolinfo << \" U\" << undef;\n", "        (void)undef;\n", ["C19"]),
 ("hash-no-includePaths", "lib/cppcheck.cpp", "        toolinfo << \" I\" << includePath;\n", "        (void)includePath;\n", ["C19"]),
 ("hash-no-libraries", "lib/cppcheck.cpp", "        toolinfo << \" l\" << library;\n", "        (void)library;\n", ["C19"]),
 ("hash-no-platform", "lib/cppcheck.cpp", "    toolinfo << ' ' << mSettings.platform.toString();\n", "", ["C19"]),
 ("hash-no-std", "lib/cppcheck.cpp", "    toolinfo << ' ' << mSettings.standards.getC() << ' ' << mSettings.standards.getCPP();\n", "", ["C19"]),
 ("hash-no-language", "lib/preprocessor.cpp", "    hashData += std::to_string(static_cast<int>(mLang));\n", "", ["C19"]),
 # ---- C18
 ("hash-no-filepath", "lib/cppcheck.cpp", "    toolinfo << filePath;\n", "", ["C18"]),
 ("hash-line-truncated", "lib/preprocessor.cpp", "            hashData += std::to_string(tok->location.line);\n", "            hashData += static_cast<char>(tok->location.line);\n", ["C18"]),
 ("hash-no-column", "lib/preprocessor.cpp", "            hashData += std::to_string(tok->location.col);\n", "", ["C18"]),
 ("hash-ignores-headers", "lib/preprocessor.cpp", "    for (const auto &filedata : mFileCache) {\n        for (const simplecpp::Token *tok = filedata->tokens.cfront(); tok; tok = tok->next) {\n            if (!tok->comment) {",
  "    for (const auto &filedata : mFileCache) {\n        for (const simplecpp::Token *tok = filedata->tokens.cfront(); tok; tok = tok->next) {\n            if (false) {", ["C18"]),
 ("no-files-txt", "cli/cppcheckexecutor.cpp", "        AnalyzerInformation::writeFilesTxt(settings.buildDir, fileNames, mFileSettings);\n", "        if (!Path::isFile(settings.buildDir + \"/files.txt\")) AnalyzerInformation::writeFilesTxt(settings.buildDir, fileNames, mFileSettings);\n", ["C18"]),
 ("cache-replay-bypasses-logger", "lib/cppcheck.cpp", "                    mErrorLogger.reportErr(errors.front());\n                    errors.pop_front();", "                    mErrorLoggerDirect.reportErr(errors.front());\n                    errors.pop_front();", ["C18", "C19", "C25"]),
 ("no-clear-at-start", "lib/cppcheck.cpp", "    // the unique errors are per check() call - some code paths below return without resetting them\n    mLogger->clear();\n", "", ["C18"]),
 ("files-txt-suffix-match", "lib/analyzerinfo.cpp", "        if (sourcefile == filesTxtInfo.sourceFile)\n            return filesTxtInfo.afile;\n", "", ["C18", "C22"]),
 # ---- C22
 ("nested-call-tag", "lib/ctu.cpp", "    out << \"<nested-call\"", "    out << \"<function-call\"", ["C22", "C18"]),
 ("ctu-drop-argnr", "lib/ctu.cpp", "        << \" \" << ATTR_CALL_ARGNR << \"=\\\"\" << callArgNr << \"\\\"\"", "        << \" \" << ATTR_CALL_ARGNR << \"=\\\"\" << 1 << \"\\\"\"", ["C22"]),
 ("unused-last-decl", "lib/checkunusedfunctions.cpp", "                    decls.emplace(functionName, Location(file ? file : filesTxtInfo.sourceFile, strToInt<int>(lineNumber), strToInt<int>(column)));", "                    decls[functionName] = Location(file ? file : filesTxtInfo.sourceFile, strToInt<int>(lineNumber), strToInt<int>(column));", ["C22", "C18"]),
 # ---- C20
 ("close-tag-early", "lib/analyzerinfo.cpp", "    mOutputStream << \"<analyzerinfo hash=\\\"\" << hash << \"\\\">\\n\";\n", "    mOutputStream << \"<analyzerinfo hash=\\\"\" << hash << \"\\\">\\n\";\n    mOutputStream.flush();\n", []),
 ("xml-error-is-cache-hit", "lib/analyzerinfo.cpp", "        else if (xmlError != tinyxml2::XML_ERROR_FILE_NOT_FOUND) {\n            if (debug)", "        else if (xmlError != tinyxml2::XML_ERROR_FILE_NOT_FOUND) {\n            return false;\n            if (debug)", ["C20"]),
 ("accept-unclosed-cache", "lib/analyzerinfo.cpp", "void AnalyzerInformation::reportErr(const ErrorMessage &msg)\n{\n    if (mOutputStream.is_open())\n        mOutputStream << msg.toXML() << '\\n';", "void AnalyzerInformation::reportErr(const ErrorMessage &msg)\n{\n    if (mOutputStream.is_open())\n        mOutputStream << msg.toXML() << \"\\n</analyzerinfo>\\n\" << std::flush;", ["C20", "C18"]),
 # ---- C15 / C24
 ("no-writeSuppr", "cli/processexecutor.cpp", "                pipewriter.writeSuppr(supprs.nomsg);\n", "", ["C15", "C24"]),
 ("ignore-report-suppr", "cli/processexecutor.cpp", "            const std::string err = mSuppressions.nomsg.addSuppression(suppr);\n            if (!err.empty()) {\n                // TODO: only update state if it doesn't exist - otherwise propagate error\n                mSuppressions.nomsg.updateSuppressionState(suppr); // TODO: check result",
  "            const std::string err = mSuppressions.nomsg.addSuppression(suppr);\n            if (!err.empty()) {\n                // TODO: only update state if it doesn't exist - otherwise propagate error", ["C15", "C24"]),
 ("suppr-no-matched-flag", "cli/processexecutor.cpp", "            suppr_str += suppr.matched ? \"1\" : \"0\";", "            suppr_str += \"0\";", ["C15", "C24"]),
 ("hasToLog-skips-suppression", "cli/executor.cpp", "    if (!mSuppressions.nomsg.isSuppressed(msg, {}))\n    {", "    {", ["C15"]),
 ("serialize-drops-cwe", "lib/errorlogger.cpp", "    serializeString(oss, std::to_string(cwe.id));", "    serializeString(oss, std::to_string(0));", ["C15"]),
 ("single-read-payload", "cli/processexecutor.cpp", "            bytes_to_read -= bytes_read;\n            data_start += bytes_read;\n        } while (bytes_to_read != 0);", "            bytes_to_read -= bytes_read;\n            data_start += bytes_read;\n        } while (false);", ["C15"]),
 ("global-suppr-not-marked", "lib/suppressions.cpp", "        if (s.isMatch(errmsg) && (global || s.isLocal()))\n            returnValue = true;", "        if (!global && !s.isLocal())\n            continue;\n        if (s.isMatch(errmsg))\n            returnValue = true;", ["C15", "C24"]),
 ("no-markUnmatchedInline", "lib/cppcheck.cpp", "                    mSuppressions.nomsg.markUnmatchedInlineSuppressionsAsChecked(tokenizer.list);", "                    (void)tokenizer;", ["C24"]),
 ("report-matched-suppr", "lib/suppressions.cpp", "        if (!s.isInline)\n            continue;\n        // TODO: remove this and markUnmatchedInlineSuppressionsAsChecked()?\n        if (!s.checked)\n            continue;\n        if (s.matched)\n            continue;", "        if (!s.isInline)\n            continue;\n        // TODO: remove this and markUnmatchedInlineSuppressionsAsChecked()?\n        if (!s.checked)\n            continue;", ["C24"]),
 # ---- C16
 ("race-hasToLog", "cli/executor.cpp", "        std::lock_guard<std::mutex> lg(mErrorListSync);\n", "", ["C16"]),
 ("race-isSuppressed", "lib/suppressions.cpp", "bool SuppressionList::isSuppressed(const SuppressionList::ErrorMessage &errmsg, bool global)\n{\n    std::lock_guard<std::mutex> lg(mSuppressionsSync);\n", "bool SuppressionList::isSuppressed(const SuppressionList::ErrorMessage &errmsg, bool global)\n{\n", ["C16"]),
 ("race-reportErr", "cli/threadexecutor.cpp", "        std::lock_guard<std::mutex> lg(mReportSync);\n        mErrorLogger.reportErr(msg);", "        mErrorLogger.reportErr(msg);", ["C16"]),
 ("race-next-file", "cli/threadexecutor.cpp", "    bool next(const FileWithDetails *&file, const FileSettings *&fs, std::size_t &fileSize) {\n        std::lock_guard<std::mutex> l(mFileSync);\n", "    bool next(const FileWithDetails *&file, const FileSettings *&fs, std::size_t &fileSize) {\n", ["C16"]),
 # ---- C17
 ("keep-remark-comments", "lib/cppcheck.cpp", "        mLocationMacros.clear();\n", "", ["C17"]),
 # ---- C21
 ("no-result-on-eof", "cli/processexecutor.cpp", "        // need to increment so a missing pipe (i.e. premature exit of forked process) results in an error exitcode\n        ++result;\n        return false;", "        return false;", ["C21", "C25"]),
 ("no-internal-err-signal", "cli/processexecutor.cpp", "                    oss << \"Child process crashed with signal \" << WTERMSIG(stat);\n                    reportInternalChildErr(childname, oss.str());", "                    oss << \"Child process crashed with signal \" << WTERMSIG(stat);", ["C21"]),
 ("eof-midmessage-exits", "cli/processexecutor.cpp", "    if (bytes_read == 0) {\n        // the child process died in the middle of a message - handle it like a premature exit\n        ++result;\n        return false;\n    }\n    if (bytes_read <= 0) {\n        const int err = errno;\n        std::cerr << \"#### ThreadExecutor::handleRead(\" << filename << \") error (len)", "    if (bytes_read <= 0) {\n        const int err = errno;\n        std::cerr << \"#### ThreadExecutor::handleRead(\" << filename << \") error (len)", ["C21"]),
 ("handleRead-eof-returns-true", "cli/processexecutor.cpp", "        // need to increment so a missing pipe (i.e. premature exit of forked process) results in an error exitcode\n        ++result;\n        return false;", "        ++result;\n        return true;", ["C21"]),
 # ---- C25
 ("unmatched-no-exitcode", "cli/cppcheckexecutor.cpp", "        if (err && returnValue == 0)\n            returnValue = settings.exitCode;", "        (void)err;", ["C25"]),
 ("wholeprogram-result-ignored", "cli/cppcheckexecutor.cpp", "    returnValue |= cppcheck.analyseWholeProgram(settings.buildDir, mFiles, mFileSettings, stdLogger.getCtuInfo());", "    cppcheck.analyseWholeProgram(settings.buildDir, mFiles, mFileSettings, stdLogger.getCtuInfo());", ["C25"]),
 # ---- C29
 ("dump-var-by-address", "lib/symboldatabase.cpp", "    std::set<const Variable *, VariableLess> variables;", "    std::set<const Variable *> variables;", ["C29"]),
 ("no-file-sort", "cli/filelister.cpp", None, None, ["C29"]),
 # ---- C34
 ("addon-no-severity-filter", "lib/cppcheck.cpp", "            else if (!mSettings.severity.isEnabled(errmsg.severity)) {\n                // Do not filter out premium misra/cert/autosar messages that has been\n                // explicitly enabled with a --premium option\n                if (!isPremiumCodingStandardId(errmsg.id))\n                    continue;\n            }", "", ["C34"]),
 ("addon-wholeprogram-uncaught", "lib/cppcheck.cpp", "    try {\n        executeAddonsWholeProgram(files, fileSettings, ctuInfo);\n    } catch (const std::runtime_error &e) {\n        // e.g. unexpected types in the addon output\n        internalError(\"\", std::string(\"Whole program analysis failed: \") + e.what());\n    }", "    executeAddonsWholeProgram(files, fileSettings, ctuInfo);", ["C34"]),
 ("addon-id-twice", "lib/cppcheck.cpp", "            errmsg.id = obj[\"addon\"].get<std::string>() + \"-\" + obj[\"errorId\"].get<std::string>();", "            errmsg.id = obj[\"addon\"].get<std::string>() + \"-\" + obj[\"addon\"].get<std::string>() + \"-\" + obj[\"errorId\"].get<std::string>();", ["C34"]),
 ("addon-summaries-only-without-bd", "lib/cppcheck.cpp", "                if (!mSettings.buildDir.empty()) {\n                    ctuInfo += res.serialize() + \"\\n\";\n                } else {", "                if (!mSettings.buildDir.empty()) {\n                } else {", ["C34"]),
]


def sh(cmd, **kw):
    return subprocess.run(cmd, shell=True, stdout=subprocess.PIPE, stderr=subprocess.STDOUT, text=True, **kw)


def main():
    sel = sys.argv[1:]
    if not os.path.isdir(REPO):
        sh("git -C /repo worktree add --detach %s HEAD" % REPO)
    sh("git -C %s checkout -q --detach $(git -C /repo rev-parse HEAD) && git -C %s checkout -q -- ." % (REPO, REPO))
    env = dict(os.environ, VERIF_REPO=REPO, VERIF_BUILD="/tmp/vb-m", VERIF_OUT_DIR="/tmp/vo-m", CCACHE_DIR="/tmp/vb-m/ccache",
               VERIF_N=os.environ.get("MUT_N", ""))
    res = {}
    path = os.path.join(VERIF, "mutants_result.json")
    if os.path.exists(path):
        res = json.load(open(path))
    for name, f, old, new, checks in M:
        if sel and not any(s in name for s in sel):
            continue
        if old is None or not checks:
            continue
        p = os.path.join(REPO, f)
        src = open(p).read()
        if src.count(old) != 1:
            print("%-34s SKIP (pattern occurs %d times)" % (name, src.count(old)))
            res[name] = {"status": "skip"}
            continue
        try:
            open(p, "w").write(src.replace(old, new))
            caught = {}
            for c in checks:
                t0 = time.time()
                r = sh("checks/run %s quick" % c, cwd=VERIF, env=env)
                v = [l for l in r.stdout.split("\n") if l.startswith("VIOLATION")]
                herr = "HARNESS-ERROR" in r.stdout
                caught[c] = {"rc": r.returncode, "violations": len(v), "harness_error": herr, "wall": round(time.time() - t0)}
                sig = [l for l in r.stdout.split("\n") if l.startswith("violation class=")][:2]
                print("%-34s %s rc=%d %s %s" % (name, c, r.returncode, "CAUGHT" if r.returncode == 1 else ("HARNESS-ERROR" if herr else "missed"), sig[:1]))
                sys.stdout.flush()
            res[name] = {"file": f, "checks": caught}
        finally:
            sh("git -C %s checkout -- ." % REPO)
        json.dump(res, open(path, "w"), indent=1, sort_keys=True)
    return 0


if __name__ == "__main__":
    sys.exit(main())
