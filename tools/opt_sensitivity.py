#!/usr/bin/python3
# usage: tools/opt_sensitivity.py  - calibration of the option-sensitive material (DESIGN.md section 5): analyses one C and one
# C++ file holding every atom under each value of every option in gen.OPTION_POOL and lists the value pairs that no atom
# tells apart (a cache-key defect confined to such a pair would be invisible to C19).
import itertools, os, subprocess, sys, tempfile
sys.path.insert(0, os.path.dirname(os.path.dirname(os.path.abspath(__file__))))
from sim import core, gen
d = tempfile.mkdtemp(prefix="optsens")
os.makedirs(d + "/inc"); os.makedirs(d + "/inc2")
open(d + "/inc/onlyinc.h", "w").write("static inline int oi(int y){return y/0;}\n#define ONLYINC 1\n")
open(d + "/inc/second.h", "w").write("static inline int os(int y){return 7/(y-y);}\n")
open(d + "/inc2/onlyinc.h", "w").write("static inline void oi2(void){int *p=0;*p=1;}\n#define ONLYINC 2\n")
for lang, ext in (("c", "c"), ("cpp", "cpp")):
    ch = ['#include "onlyinc.h"\n#include "second.h"', "#if defined(ONLYINC) && ONLYINC==1\nvoid fo(void){int q[2];q[2]=0;}\n#endif"]
    if lang == "cpp":
        ch.insert(0, "#include <string>\n#include <vector>\n#include <list>")
    for i, a in enumerate(gen.ATOMS):
        if gen.atom_ok(a, lang):
            ch.append(a[3].format(n=100 + i))
    ch.append("#ifdef CFG_A\nint fa(int y){return y/0;}\n#endif\n#ifdef CFG_B\nvoid fb(void){int q[2];q[2]=0;}\n#endif")
    open("%s/all.%s" % (d, ext), "w").write("\n".join(ch) + "\n")
def run(opts):
    p = subprocess.run([core.exe("plain"), "-q", "--xml", "--enable=all"] + opts + ["all.c", "all.cpp"], cwd=d, stdout=subprocess.PIPE, stderr=subprocess.PIPE)
    fs, ok = core.parse_xml_findings(p.stderr.decode("utf-8", "replace"))
    return frozenset((f.id, f.msg, f.locs[0][:2] if f.locs else None) for f in fs if f.id != "checkersReport")
for key, vals in gen.OPTION_POOL.items():
    if key in ("--enable", "--suppress", "--inline-suppr"):
        continue
    res = {v: run(v.split()) for v in vals}
    same = [(a or "(absent)", b or "(absent)") for a, b in itertools.combinations(vals, 2) if res[a] == res[b]]
    print("%-16s %d values, %d findings with default; indistinguishable pairs: %s" % (key, len(vals), len(res[""]), same or "none"))
import shutil; shutil.rmtree(d)
