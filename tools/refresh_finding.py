#!/usr/bin/python3
# usage: tools/refresh_finding.py <module> <replay.json> <out.json>  - re-executes a replay file with the current
# oracle code and stores the (cls, sig) it yields now (used when signatures are refined).
import importlib, json, os, sys
sys.path.insert(0, os.path.dirname(os.path.dirname(os.path.abspath(__file__))))
from sim import engine, core
prop = importlib.import_module("sim.props." + sys.argv[1]).PROP
rep = json.load(open(sys.argv[2]))
out = engine.execute_fresh(prop, rep["scenario"], os.path.join(core.scratch_root(), "refresh"), "r")
core.rmtree(core.scratch_root())
vs = [v for v in out.violations if v["cls"] == rep["violation"]["cls"]]
if not vs:
    print("does not reproduce"); sys.exit(1)
rep["violation"] = vs[0]
json.dump(rep, open(sys.argv[3], "w"), indent=1)
print(vs[0]["cls"], "|", vs[0]["sig"])
