#!/bin/bash
# usage: tools/run_all_quick.sh [seed ...]   - runs every registered quick command the way it is exercised from a fresh
# restore (evidence file removed first) and prints one line per check; exit 1 if any check is not quiet.
# A change to sim/gen.py or to a shared engine is a change to every check: run this before committing one.
cd /verif || exit 2
bad=0
for seed in "${@:-1}"; do
  for id in C15 C16 C17 C18 C19 C20 C21 C22 C24 C25 C29 C34; do
    rm -f evidence/$id.json
    out=$(VERIF_SEED=$seed VERIF_TIER=quick checks/run $id quick 2>&1); rc=$?
    nv=$(printf '%s\n' "$out" | grep -c '^VIOLATION')
    ev=$(test -s evidence/$id.json && echo yes || echo NO)
    echo "seed=$seed $id rc=$rc violations=$nv evidence=$ev $(printf '%s\n' "$out" | tail -1 | sed 's/.*wall=/wall=/')"
    if [ $rc -ne 0 ] || [ $nv -ne 0 ] || [ $ev != yes ]; then bad=1; printf '%s\n' "$out" | grep -v '^KNOWN-FINDING' | tail -15; fi
  done
done
exit $bad
