#!/usr/bin/python3
# usage: tools/scn.py <module> <verif_seed> <index> [<keepdir>] [--twice]
# Regenerates scenario <index> of a batch and executes it (optionally twice, comparing trace hashes); with <keepdir> the
# work directory (trees, plans, traces, build dirs) is kept for inspection.
import importlib, json, os, shutil, sys
sys.path.insert(0, os.path.dirname(os.path.dirname(os.path.abspath(__file__))))
from sim import core, engine
mod, seed, idx = sys.argv[1], int(sys.argv[2]), int(sys.argv[3])
rest = sys.argv[4:]
twice = "--twice" in rest
rest = [a for a in rest if a != "--twice"]
keep = rest[0] if rest else None
prop = importlib.import_module("sim.props." + mod).PROP
tier = os.environ.get("VERIF_TIER", "quick")
scn = prop.generate(core.mix(seed, prop.ID, idx), tier, idx)
print(json.dumps(prop.describe(scn), indent=1)[:3000])
res = []
for k in range(2 if twice else 1):
    wd = (keep or "/tmp/scn-%d" % os.getpid()) + ("-%d" % k if twice else "")
    shutil.rmtree(wd, ignore_errors=True); os.makedirs(wd)
    out = engine.run_scenario(prop, scn, wd)
    res.append(out)
    print("run %d: runs=%d error=%s hashes=%s" % (k, out.runs, out.error, out.run_hashes))
    for v in out.violations:
        print("  VIOL %s | %s" % (v["cls"], v["sig"]))
        for l in v["detail"][:10]:
            print("      " + l[:300])
    if not keep:
        shutil.rmtree(wd, ignore_errors=True)
if twice:
    print("hashes equal:", res[0].run_hashes == res[1].run_hashes)
