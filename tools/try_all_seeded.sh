#!/bin/bash
# final consistency pass: every seeded change against the quick tier of the check of its property (scratch worktree)
cd /verif
for d in seeded/*/; do
  id=$(basename $d); prop=$(/usr/bin/python3 -c "import json;print(json.load(open('$d/meta.json'))['property'])")
  res=$(VERIF_JOBS=12 tools/try_patch.sh $d/patch.diff $prop 2>&1 | grep -E "^VIOLATION|exit=|HARNESS" | head -3 | tr '\n' ' ')
  echo "$id $prop :: $(echo $res | sed 's/replay=[^ ]*//g')"
done
