#!/bin/bash
# usage: tools/try_patch.sh <patch.diff> <ID> [<ID> ...]     (env: VERIF_SEED, VERIF_N, TIER=quick|thorough, SLOT=a)
# Runs checks against a scratch worktree of /repo's HEAD with the patch applied - /repo itself is not touched, so this can
# run next to other work. The worktree /tmp/vw-$SLOT and its build output /tmp/vb-$SLOT are kept between calls (incremental
# rebuilds) and reset to /repo's HEAD each time; evidence/replays go to /tmp/vo-$SLOT. tools/try_patch.sh --clean removes them.
set -u
slot=${SLOT:-a}; wt=/tmp/vw-$slot
if [ "$1" = "--clean" ]; then
  for w in /tmp/vw-*; do [ -d "$w" ] && git -C /repo worktree remove --force "$w"; done
  rm -rf /tmp/vb-* /tmp/vo-*; exit 0
fi
patch=$(readlink -f "$1"); shift
exec 9>/tmp/vw-$slot.lock; flock 9
[ -d "$wt" ] || git -C /repo worktree add --detach "$wt" HEAD >/dev/null 2>&1 || exit 2
git -C "$wt" checkout -q --detach "$(git -C /repo rev-parse HEAD)" && git -C "$wt" checkout -q -- . && git -C "$wt" clean -fdq
git -C "$wt" apply "$patch" || { echo "patch does not apply"; exit 2; }
cd "$(dirname "$(readlink -f "$0")")/.."
export VERIF_REPO=$wt VERIF_BUILD=/tmp/vb-$slot VERIF_OUT_DIR=/tmp/vo-$slot CCACHE_DIR=/tmp/vb-$slot/ccache
for id in "$@"; do
  echo "=== $id with $(basename "$(dirname "$patch")")"
  checks/run $id ${TIER:-quick} 2>&1 | grep -E "^violation|^VIOLATION|^KNOWN|^property=|HARNESS|^    " | cut -c1-240 | head -${LINES_MAX:-25}
  echo "exit=${PIPESTATUS[0]}"
done
git -C "$wt" checkout -q -- .
