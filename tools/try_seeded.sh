#!/bin/bash
# usage: tools/try_seeded.sh <patch.diff> <ID> [<ID> ...]   (env: VERIF_SEED, VERIF_N)
# Applies a seeded change to /repo, runs the quick checks of the given properties, and always undoes the change.
set -u
patch=$(readlink -f "$1"); shift
cd /repo || exit 2
if [ -n "$(git status --porcelain --untracked-files=no)" ]; then echo "/repo has uncommitted changes - refusing"; exit 2; fi
git apply --check "$patch" || { echo "patch does not apply"; exit 2; }
git apply "$patch"
trap 'git -C /repo checkout -- . ; echo "[/repo restored]"' EXIT
cd /verif
for id in "$@"; do
  echo "=== $id with seeded change $(basename $(dirname $patch))"
  checks/run $id quick 2>&1 | grep -E "^violation|^VIOLATION|^KNOWN|^property=|HARNESS|^    " | cut -c1-220 | head -${LINES_MAX:-25}
  echo "exit=${PIPESTATUS[0]}"
done
